package main

import (
	"encoding/json"
	"flag"
	"fmt"
	"os"
	"os/exec"
	"path/filepath"
	"regexp"
	"sort"
	"strconv"
	"strings"

	"verifh/internal/sx"
)

type cexFile struct {
	Property  string       `json:"property"`
	Spec      string       `json:"spec"`
	Tier      string       `json:"tier"`
	Violation sx.Violation `json:"violation"`
}

type vxModel struct {
	Ints    map[string][]int64
	Bools   map[string][]bool
	Bytes   map[string][][]byte
	Strings map[string][]string
	Choices []sx.Choice
	Clock   [][2]int64
	Params  map[string]int
}

var (
	reIntIn  = regexp.MustCompile(`^in_(.+)_(\d+)_(I|b64|b8|b16|b32)$`)
	reBoolIn = regexp.MustCompile(`^in_(.+)_(\d+)_B$`)
	reStrIn  = regexp.MustCompile(`^in_(.+)_(\d+)_S$`)
	reByteIn = regexp.MustCompile(`^in_(.+)_(\d+)_(\d+)$`)
	reClock  = regexp.MustCompile(`^now_([sn])_(\d+)_I$`)
)

func parseSMTInt(v string) (int64, bool) {
	v = strings.TrimSpace(v)
	if strings.HasPrefix(v, "(") {
		v = strings.Trim(v, "() ")
		v = strings.TrimSpace(strings.TrimPrefix(v, "-"))
		n, err := strconv.ParseInt(strings.TrimSpace(v), 10, 64)
		if err != nil {
			u, err2 := strconv.ParseUint(strings.TrimSpace(v), 10, 64)
			if err2 != nil {
				return 0, false
			}
			return -int64(u), true
		}
		return -n, true
	}
	if strings.HasPrefix(v, "#x") {
		u, err := strconv.ParseUint(v[2:], 16, 64)
		return int64(u), err == nil
	}
	if strings.HasPrefix(v, "#b") {
		u, err := strconv.ParseUint(v[2:], 2, 64)
		return int64(u), err == nil
	}
	n, err := strconv.ParseInt(v, 10, 64)
	return n, err == nil
}

func buildModel(v sx.Violation, params map[string]int) *vxModel {
	m := &vxModel{Ints: map[string][]int64{}, Bools: map[string][]bool{}, Bytes: map[string][][]byte{}, Strings: map[string][]string{}, Choices: v.Choices, Params: params}
	setInt := func(name string, k int, val int64) {
		for len(m.Ints[name]) <= k {
			m.Ints[name] = append(m.Ints[name], 0)
		}
		m.Ints[name][k] = val
	}
	clock := map[int][2]int64{}
	maxClock := -1
	keys := make([]string, 0, len(v.Model))
	for k := range v.Model {
		keys = append(keys, k)
	}
	sort.Strings(keys)
	for _, k := range keys {
		val := v.Model[k]
		if mm := reClock.FindStringSubmatch(k); mm != nil {
			idx, _ := strconv.Atoi(mm[2])
			n, _ := parseSMTInt(val)
			c := clock[idx]
			if mm[1] == "s" {
				c[0] = n
			} else {
				c[1] = n
			}
			clock[idx] = c
			if idx > maxClock {
				maxClock = idx
			}
			continue
		}
		if mm := reBoolIn.FindStringSubmatch(k); mm != nil {
			idx, _ := strconv.Atoi(mm[2])
			for len(m.Bools[mm[1]]) <= idx {
				m.Bools[mm[1]] = append(m.Bools[mm[1]], false)
			}
			m.Bools[mm[1]][idx] = val == "true"
			continue
		}
		if mm := reStrIn.FindStringSubmatch(k); mm != nil {
			idx, _ := strconv.Atoi(mm[2])
			for len(m.Strings[mm[1]]) <= idx {
				m.Strings[mm[1]] = append(m.Strings[mm[1]], "")
			}
			m.Strings[mm[1]][idx] = unescapeSMTString(val)
			continue
		}
		if mm := reIntIn.FindStringSubmatch(k); mm != nil {
			idx, _ := strconv.Atoi(mm[2])
			n, _ := parseSMTInt(val)
			setInt(mm[1], idx, n)
			continue
		}
		if mm := reByteIn.FindStringSubmatch(k); mm != nil {
			call, _ := strconv.Atoi(mm[2])
			pos, _ := strconv.Atoi(mm[3])
			n, _ := parseSMTInt(val)
			for len(m.Bytes[mm[1]]) <= call {
				m.Bytes[mm[1]] = append(m.Bytes[mm[1]], nil)
			}
			b := m.Bytes[mm[1]][call]
			for len(b) <= pos {
				b = append(b, 0)
			}
			b[pos] = byte(n)
			m.Bytes[mm[1]][call] = b
		}
	}
	for i := 0; i <= maxClock; i++ {
		m.Clock = append(m.Clock, clock[i])
	}
	return m
}

func unescapeSMTString(v string) string {
	v = strings.TrimSpace(v)
	if len(v) >= 2 && v[0] == '"' {
		v = v[1 : len(v)-1]
	}
	v = strings.ReplaceAll(v, `""`, `"`)
	re := regexp.MustCompile(`\\u\{([0-9a-fA-F]+)\}|\\x([0-9a-fA-F]{2})`)
	return re.ReplaceAllStringFunc(v, func(s string) string {
		mm := re.FindStringSubmatch(s)
		h := mm[1]
		if h == "" {
			h = mm[2]
		}
		n, _ := strconv.ParseUint(h, 16, 32)
		return string(rune(n))
	})
}

// repoOverlay maps /repo paths to replacement files taken from the tree named by GOSX_REPO_OVERLAY (a directory
// mirroring /repo's layout that holds only the files to replace). It lets a candidate change to the repository be
// checked without touching /repo (used by seeded/run_seed.sh).
func repoOverlay() map[string]string {
	out := map[string]string{}
	root := os.Getenv("GOSX_REPO_OVERLAY")
	if root == "" {
		return out
	}
	filepath.Walk(root, func(path string, info os.FileInfo, err error) error {
		if err != nil || info.IsDir() || !strings.HasSuffix(path, ".go") {
			return nil
		}
		rel, _ := filepath.Rel(root, path)
		out[filepath.Join("/repo", rel)] = path
		return nil
	})
	return out
}

// clockOverlay rewrites time.Now() in the repo's non-test sources so that native replay runs on the model's clock.
func clockOverlay(tmp string, ov map[string]string) error {
	roots := []string{"/repo/go/appencryption", "/repo/go/securememory", "/repo/server/go/pkg"}
	n := 0
	re := regexp.MustCompile(`(?m)^package\s+\w+\s*$`)
	rewrite := func(path string, src []byte) error {
		if !strings.Contains(string(src), "time.Now()") {
			return nil
		}
		txt := strings.ReplaceAll(string(src), "time.Now()", "vxclock.Now()")
		// add the import right after the package clause
		loc := re.FindStringIndex(txt)
		if loc == nil {
			return nil
		}
		txt = txt[:loc[1]] + "\n\nimport vxclock \"verifh/vx/vxclock\"\n" + txt[loc[1]:] + "\nvar _ = time.Second\n"
		n++
		dst := filepath.Join(tmp, fmt.Sprintf("clk%d.go", n))
		if err := os.WriteFile(dst, []byte(txt), 0o644); err != nil {
			return err
		}
		ov[path] = dst
		return nil
	}
	// candidate-change files first (GOSX_REPO_OVERLAY): they replace the /repo file of the same path
	for path, alt := range repoOverlay() {
		if _, overlaid := ov[path]; overlaid || strings.HasSuffix(path, "_test.go") {
			continue
		}
		src, err := os.ReadFile(alt)
		if err != nil {
			return err
		}
		ov[path] = alt
		if err := rewrite(path, src); err != nil {
			return err
		}
	}
	for _, root := range roots {
		err := filepath.Walk(root, func(path string, info os.FileInfo, err error) error {
			if err != nil {
				return nil
			}
			if info.IsDir() {
				b := info.Name()
				if b == "integrationtest" || b == "cmd" || b == "testdata" || b == "scripts" {
					return filepath.SkipDir
				}
				return nil
			}
			if !strings.HasSuffix(path, ".go") || strings.HasSuffix(path, "_test.go") {
				return nil
			}
			if _, overlaid := ov[path]; overlaid {
				return nil
			}
			src, err := os.ReadFile(path)
			if err != nil {
				return nil
			}
			return rewrite(path, src)
		})
		if err != nil {
			return err
		}
	}
	return nil
}

// nativeReplay runs the harness natively under the model; returns (confirmed, transcript).
func nativeReplay(specPath, tier string, v sx.Violation) (bool, string, error) {
	var spec propSpec
	b, err := os.ReadFile(specPath)
	if err != nil {
		return false, "", err
	}
	if err := json.Unmarshal(b, &spec); err != nil {
		return false, "", err
	}
	var h *harnessSpec
	for i := range spec.Harnesses {
		if spec.Harnesses[i].Name == v.Harness {
			h = &spec.Harnesses[i]
		}
	}
	if h == nil {
		for i := range spec.Harnesses {
			if spec.Harnesses[i].Entry == v.Harness {
				h = &spec.Harnesses[i]
				break
			}
		}
	}
	if h == nil {
		return false, "", fmt.Errorf("harness %s not in spec", v.Harness)
	}
	ts := h.Quick
	if tier == "thorough" {
		ts = mergeTier(h.Quick, h.Thorough)
	}
	if ov := os.Getenv("GOSX_PARAMS"); ov != "" {
		// experiment overrides given with -param apply to the replay as well
		np := map[string]int{}
		for k, v := range ts.Params {
			np[k] = v
		}
		for _, kv := range strings.Split(ov, ",") {
			if i := strings.IndexByte(kv, '='); i > 0 {
				n, _ := strconv.Atoi(kv[i+1:])
				np[kv[:i]] = n
			}
		}
		ts.Params = np
	}
	tmp, err := os.MkdirTemp("", "gosx-replay-")
	if err != nil {
		return false, "", err
	}
	defer os.RemoveAll(tmp)
	model := buildModel(v, ts.Params)
	mb, _ := json.Marshal(model)
	modelPath := filepath.Join(tmp, "model.json")
	os.WriteFile(modelPath, mb, 0o644)

	// where does the harness package live on disk?
	ov := map[string]string{}
	for virt, real := range h.Overlay {
		ov[virt] = filepath.Join(verifRoot, real)
	}
	pkgDir := ""
	pkgName := ""
	if strings.HasPrefix(h.Pkg, "verifh/") {
		pkgDir = filepath.Join(verifRoot, "engine", strings.TrimPrefix(h.Pkg, "verifh/"))
	} else {
		// in-package harness overlaid into a repo directory: use the directory of the first overlay file
		for virt := range h.Overlay {
			pkgDir = filepath.Dir(virt)
		}
	}
	if pkgDir == "" {
		return false, "", fmt.Errorf("cannot locate package dir for %s", h.Pkg)
	}
	// package name: from any go file of the package
	pkgName = filepath.Base(pkgDir)
	entries, _ := os.ReadDir(pkgDir)
	for _, e := range entries {
		if strings.HasSuffix(e.Name(), ".go") && !strings.HasSuffix(e.Name(), "_test.go") {
			src, _ := os.ReadFile(filepath.Join(pkgDir, e.Name()))
			if mm := regexp.MustCompile(`(?m)^package\s+(\w+)`).FindStringSubmatch(string(src)); mm != nil {
				pkgName = mm[1]
				break
			}
		}
	}
	test := fmt.Sprintf(`package %s

import (
	"fmt"
	"os"
	"testing"

	"verifh/vx"
)

func TestVxReplay(t *testing.T) {
	if err := vx.LoadModelFile(os.Getenv("VX_MODEL")); err != nil {
		t.Fatal(err)
	}
	defer func() {
		r := recover()
		p := ""
		if r != nil && fmt.Sprint(r) != "vx.Stop" {
			p = fmt.Sprint(r)
		}
		var reached []string
		for k := range vx.Reached {
			reached = append(reached, k)
		}
		fmt.Printf("VXREPLAY failed=%%q panic=%%q desync=%%q reached=%%q\n", vx.Failed, p, vx.Desync, reached)
	}()
	%s()
}
`, pkgName, h.Entry)
	testPath := filepath.Join(tmp, "zz_replay_test.go")
	os.WriteFile(testPath, []byte(test), 0o644)
	ov[filepath.Join(pkgDir, "zz_vx_replay_test.go")] = testPath
	if err := clockOverlay(tmp, ov); err != nil {
		return false, "", err
	}
	ovb, _ := json.Marshal(map[string]interface{}{"Replace": ov})
	ovPath := filepath.Join(tmp, "overlay.json")
	os.WriteFile(ovPath, ovb, 0o644)

	cmd := exec.Command("go", "test", "-v", "-vet=off", "-count=1", "-overlay", ovPath, "-run", "^TestVxReplay$", "-timeout", "300s", h.Pkg)
	cmd.Dir = filepath.Join(verifRoot, "engine")
	cmd.Env = append(os.Environ(), "VX_MODEL="+modelPath, "GOFLAGS=-mod=mod", "GOPROXY=off", "GOSUMDB=off", "GOTOOLCHAIN=local", "GOWORK=off")
	out, _ := cmd.CombinedOutput()
	txt := string(out)
	confirmed := false
	if v.Kind == "pass" {
		// agreement replay of a passing path: the native run must complete without a failed assertion, panic or
		// desynchronised decision, and reach every marker the symbolic path reached
		for _, line := range strings.Split(txt, "\n") {
			if !strings.HasPrefix(line, "VXREPLAY ") {
				continue
			}
			ok := strings.Contains(line, "failed=[]") && strings.Contains(line, `panic=""`) && strings.Contains(line, "desync=[]")
			for _, m := range v.Tags {
				if !strings.Contains(line, strconv.Quote(m)) {
					ok = false
				}
			}
			return ok, txt, nil
		}
		return false, txt, nil
	}
	for _, line := range strings.Split(txt, "\n") {
		if !strings.HasPrefix(line, "VXREPLAY ") {
			continue
		}
		switch v.Kind {
		case "assert":
			if strings.Contains(line, strconv.Quote(v.Label)) {
				confirmed = true
			}
		default:
			if !strings.Contains(line, `panic=""`) {
				confirmed = true
			}
		}
	}
	if !confirmed && (v.Kind == "panic" || v.Kind == "goroutine-panic") && (strings.Contains(txt, "panic:") || strings.Contains(txt, "fatal error:")) {
		confirmed = true
	}
	return confirmed, txt, nil
}

func cmdReplay(args []string) int {
	fs := flag.NewFlagSet("replay", flag.ExitOnError)
	cex := fs.String("cex", "", "counterexample json")
	fs.Parse(args)
	b, err := os.ReadFile(*cex)
	if err != nil {
		fmt.Fprintln(os.Stderr, err)
		return 2
	}
	var c cexFile
	if err := json.Unmarshal(b, &c); err != nil {
		fmt.Fprintln(os.Stderr, err)
		return 2
	}
	if h := findHarness(c.Spec, c.Violation.Harness); h != nil && h.NoNativeReplay {
		return pinnedReplay(c, h)
	}
	ok, txt, err := nativeReplay(c.Spec, c.Tier, c.Violation)
	if err != nil {
		fmt.Fprintln(os.Stderr, "replay:", err)
		return 2
	}
	fmt.Println(txt)
	if ok {
		fmt.Printf("REPLAY-CONFIRMED property=%s label=%s (native build, real AES-GCM, model clock)\n", c.Property, c.Violation.Label)
		return 1
	}
	fmt.Printf("REPLAY-NOT-REPRODUCED property=%s label=%s\n", c.Property, c.Violation.Label)
	return 0
}

func findHarness(specPath, name string) *harnessSpec {
	var spec propSpec
	b, err := os.ReadFile(specPath)
	if err != nil || json.Unmarshal(b, &spec) != nil {
		return nil
	}
	for i := range spec.Harnesses {
		if spec.Harnesses[i].Name == name {
			return &spec.Harnesses[i]
		}
	}
	for i := range spec.Harnesses {
		if spec.Harnesses[i].Entry == name {
			return &spec.Harnesses[i]
		}
	}
	return nil
}

// pinnedReplay re-executes the harness in the executor along the recorded decision vector (inputs, faults, the
// schedule) and reports whether the same violation occurs. It is the replay of harnesses that observe model state
// (shadow page table, seal log, scheduler), for which no native run exists.
func pinnedReplay(c cexFile, h *harnessSpec) int {
	ts := h.Quick
	if c.Tier == "thorough" {
		ts = mergeTier(h.Quick, h.Thorough)
	}
	knownIDs, _ := loadKnown()
	cfg := &sx.Config{
		Dir: filepath.Join(verifRoot, "engine"), Patterns: h.Patterns, EntryPkg: h.Pkg, Entry: h.Entry,
		RepoPrefixes: []string{"github.com/godaddy/asherah", "verifh/h", "verifh/vx"}, Allowed: h.Allowed,
		MaxSteps: orDefault(ts.MaxSteps, 3000000), MaxSplit: orDefault(ts.MaxSplit, 64), PreemptBound: ts.PreemptBound,
		Workers: 1, TimeoutMs: orDefault(ts.TimeoutMs, 20000), KnownIDs: knownIDs, Params: ts.Params,
		Overlay: map[string][]byte{}, PinDecisions: append([]int{}, c.Violation.Decisions...),
	}
	if cfg.PinDecisions == nil {
		cfg.PinDecisions = []int{}
	}
	for virt, real := range repoOverlay() {
		if data, err := os.ReadFile(real); err == nil {
			cfg.Overlay[virt] = data
		}
	}
	for virt, real := range h.Overlay {
		data, err := os.ReadFile(filepath.Join(verifRoot, real))
		if err != nil {
			fmt.Fprintln(os.Stderr, "overlay:", err)
			return 2
		}
		cfg.Overlay[virt] = data
	}
	prog, err := sx.Load(cfg)
	if err != nil {
		fmt.Println("replay: cannot load the harness:", oneLine(err.Error()))
		return 2
	}
	ex := sx.NewExplorer(cfg, prog)
	ex.Run()
	for _, v := range ex.Violations {
		if v.Label == c.Violation.Label && v.Kind == c.Violation.Kind {
			fmt.Printf("  decisions: %v\n  tags: %v\n  %s\n", v.Decisions, v.Tags, oneLine(v.Msg))
			fmt.Printf("REPLAY-CONFIRMED property=%s label=%s (re-execution of the real code in the executor along the recorded inputs / faults / schedule; this harness observes model state, so there is no native run)\n", c.Property, v.Label)
			return 1
		}
	}
	for _, r := range ex.Inconclusive {
		fmt.Println("  inconclusive:", oneLine(r))
	}
	fmt.Printf("REPLAY-NOT-REPRODUCED property=%s label=%s\n", c.Property, c.Violation.Label)
	return 0
}
