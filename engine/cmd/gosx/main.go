// gosx: symbolic executor for Go SSA used by the /verif checks.
package main

import (
	"bufio"
	"encoding/json"
	"flag"
	"fmt"
	"os"
	"path/filepath"
	"sort"
	"strconv"
	"strings"
	"time"

	"verifh/internal/sx"
)

type tierSpec struct {
	Params       map[string]int `json:"params"`
	MaxSteps     int            `json:"max_steps"`
	MaxSplit     int            `json:"max_split"`
	PreemptBound int            `json:"preempt_bound"`
	FreeSwitch   int            `json:"free_switch_bound"`
	MaxPaths     int            `json:"max_paths"`
	TimeoutMs    int            `json:"timeout_ms"`
	BudgetS      int            `json:"budget_s"`
	Skip         bool           `json:"skip"`
}

type harnessSpec struct {
	Name     string            `json:"name"`
	Pkg      string            `json:"pkg"`
	Entry    string            `json:"entry"`
	Patterns []string          `json:"patterns"`
	Overlay  map[string]string `json:"overlay"` // virtual path -> file under /verif
	Reach    []string          `json:"reach"`
	Allowed  []string          `json:"allowed"`
	Quick    tierSpec          `json:"quick"`
	Thorough tierSpec          `json:"thorough"`
	About    string            `json:"about"`
	// NoNativeReplay: the harness reads model state (shadow page table, seal log, scheduler) that does not
	// exist natively, so a native run cannot confirm or refute a counterexample.
	NoNativeReplay bool `json:"no_native_replay"`
}

type propSpec struct {
	Property    string        `json:"property"`
	Harnesses   []harnessSpec `json:"harnesses"`
	Assumptions []string      `json:"assumptions"`
	Bounds      []string      `json:"bounds"`
}

type knownFinding struct {
	Status   string `json:"status"`
	Property string `json:"property"`
	ClassID  string `json:"class_id"`
	What     string `json:"what"`
	Commit   string `json:"commit"`
}

var verifRoot = "/verif"

func main() {
	if len(os.Args) < 2 {
		fmt.Fprintln(os.Stderr, "usage: gosx run|replay ...")
		os.Exit(2)
	}
	if v := os.Getenv("VERIF_ROOT"); v != "" {
		verifRoot = v
	}
	switch os.Args[1] {
	case "run":
		os.Exit(cmdRun(os.Args[2:]))
	case "replay":
		os.Exit(cmdReplay(os.Args[2:]))
	}
	fmt.Fprintln(os.Stderr, "unknown command", os.Args[1])
	os.Exit(2)
}

func loadKnown() (map[string]bool, map[string]knownFinding) {
	ids := map[string]bool{}
	byID := map[string]knownFinding{}
	f, err := os.Open(filepath.Join(verifRoot, "known_findings.jsonl"))
	if err != nil {
		return ids, byID
	}
	defer f.Close()
	sc := bufio.NewScanner(f)
	sc.Buffer(make([]byte, 1<<20), 1<<20)
	for sc.Scan() {
		line := strings.TrimSpace(sc.Text())
		if line == "" || strings.HasPrefix(line, "#") {
			continue
		}
		var k knownFinding
		if json.Unmarshal([]byte(line), &k) != nil {
			continue
		}
		if k.Status == "known" && k.ClassID != "" {
			ids[k.ClassID] = true
			byID[k.ClassID] = k
		}
	}
	return ids, byID
}

func cmdRun(args []string) int {
	fs := flag.NewFlagSet("run", flag.ExitOnError)
	specPath := fs.String("spec", "", "property spec json")
	tier := fs.String("tier", "quick", "quick|thorough")
	only := fs.String("only", "", "run only this harness")
	verbose := fs.Bool("v", false, "verbose")
	workers := fs.Int("workers", 16, "workers")
	noEvidence := fs.Bool("no-evidence", false, "do not write the evidence file")
	noReplay := fs.Bool("no-replay", false, "do not replay counterexamples natively")
	noAgree := fs.Bool("no-agree", false, "do not replay sampled passing paths natively")
	noCross := fs.Bool("no-cross", false, "do not re-decide sampled verdicts with cvc5 / z3 5.1")
	var paramOv multiFlag
	fs.Var(&paramOv, "param", "override a harness parameter: name=value (repeatable; for experiments, not for registered checks)")
	fs.Parse(args)
	if len(paramOv) > 0 {
		os.Setenv("GOSX_PARAMS", strings.Join(paramOv, ","))
	}
	if t := os.Getenv("VERIF_TIER"); t != "" && !isFlagSet(fs, "tier") {
		*tier = t
	}
	seed := 0
	if s := os.Getenv("VERIF_SEED"); s != "" {
		seed, _ = strconv.Atoi(s)
	}
	var spec propSpec
	b, err := os.ReadFile(*specPath)
	if err != nil {
		fmt.Fprintln(os.Stderr, err)
		return 2
	}
	if err := json.Unmarshal(b, &spec); err != nil {
		fmt.Fprintln(os.Stderr, "bad spec:", err)
		return 2
	}
	knownIDs, knownByID := loadKnown()
	t0 := time.Now()

	type hres struct {
		spec   harnessSpec
		ex     *sx.Explorer
		prog   *sx.Program
		err    error
		params map[string]int
	}
	var results []hres
	exit := 0
	var inconcl []string
	var allViol []sx.Violation
	knownSeen := map[string]int{}
	noNative := map[string]bool{}
	for _, h := range spec.Harnesses {
		if h.NoNativeReplay {
			noNative[h.Entry] = true
			noNative[h.Name] = true
		}
	}
	for _, h := range spec.Harnesses {
		if *only != "" && h.Name != *only {
			continue
		}
		ts := h.Quick
		if *tier == "thorough" {
			ts = mergeTier(h.Quick, h.Thorough)
		}
		if ts.Skip {
			continue
		}
		if len(paramOv) > 0 {
			np := map[string]int{}
			for k, v := range ts.Params {
				np[k] = v
			}
			for _, kv := range paramOv {
				if i := strings.IndexByte(kv, '='); i > 0 {
					n, _ := strconv.Atoi(kv[i+1:])
					np[kv[:i]] = n
				}
			}
			ts.Params = np
		}
		cfg := &sx.Config{
			Dir:             filepath.Join(verifRoot, "engine"),
			Patterns:        h.Patterns,
			EntryPkg:        h.Pkg,
			Entry:           h.Entry,
			RepoPrefixes:    []string{"github.com/godaddy/asherah", "verifh/h", "verifh/vx"},
			Allowed:         h.Allowed,
			MaxSteps:        orDefault(ts.MaxSteps, 3000000),
			MaxSplit:        orDefault(ts.MaxSplit, 64),
			PreemptBound:    ts.PreemptBound,
			FreeSwitchBound: ts.FreeSwitch,
			Workers:         *workers,
			TimeoutMs:       orDefault(ts.TimeoutMs, 20000),
			MaxPaths:        ts.MaxPaths,
			KnownIDs:        knownIDs,
			Verbose:         *verbose,
			Params:          ts.Params,
			Overlay:         map[string][]byte{},
			Seed:            seed,
			CrossEvery:      97,
			CrossMax:        8,
		}
		if *tier == "thorough" {
			cfg.CrossEvery, cfg.CrossMax = 13, 200
		}
		if *noCross {
			cfg.CrossEvery = 0
		}
		if ts.BudgetS > 0 {
			cfg.Deadline = time.Now().Add(time.Duration(ts.BudgetS) * time.Second)
		}
		for virt, real := range repoOverlay() {
			data, err := os.ReadFile(real)
			if err != nil {
				fmt.Fprintln(os.Stderr, "repo overlay:", err)
				return 2
			}
			cfg.Overlay[virt] = data
		}
		for virt, real := range h.Overlay {
			data, err := os.ReadFile(filepath.Join(verifRoot, real))
			if err != nil {
				fmt.Fprintln(os.Stderr, "overlay:", err)
				return 2
			}
			cfg.Overlay[virt] = data
		}
		prog, err := sx.Load(cfg)
		if err != nil {
			fmt.Printf("INCONCLUSIVE property=%s reason=%s\n", spec.Property, oneLine(err.Error()))
			inconcl = append(inconcl, h.Name+": "+err.Error())
			exit = 2
			continue
		}
		ex := sx.NewExplorer(cfg, prog)
		ex.Run()
		results = append(results, hres{spec: h, ex: ex, prog: prog, params: ts.Params})
		if *verbose {
			fmt.Fprintf(os.Stderr, "[%s] paths=%d infeasible=%d queries=%d viol=%d inconcl=%d wall=%.1fs load=%.1fs solver=%.1fs\n",
				h.Name, ex.Paths, ex.Infeasible, ex.Queries, len(ex.Violations), len(ex.Inconclusive), ex.Wall, prog.LoadS, ex.Solver.Time.Seconds())
		}
		if *verbose {
			var ks []string
			for k, v := range ex.Notes {
				ks = append(ks, fmt.Sprintf("%s=%d", k, v))
			}
			sort.Strings(ks)
			fmt.Fprintln(os.Stderr, "  notes:", strings.Join(ks, " "))
		}
		for _, r := range ex.Inconclusive {
			inconcl = append(inconcl, h.Name+": "+r)
		}
		if ex.Solver.Errors > 0 {
			inconcl = append(inconcl, fmt.Sprintf("%s: %d solver (error lines", h.Name, ex.Solver.Errors))
		}
		for _, m := range h.Reach {
			if ex.Reach[m] == 0 {
				inconcl = append(inconcl, fmt.Sprintf("%s: reach marker %q was not hit on any feasible completed path (vacuity guard)", h.Name, m))
			}
		}
		for i := range ex.Violations {
			ex.Violations[i].Harness = h.Name // the spec entry (several entries may share one Go function)
		}
		for i := range ex.PassingPaths {
			ex.PassingPaths[i].Harness = h.Name
		}
		allViol = append(allViol, ex.Violations...)
	}

	// agreement replays: sampled passing paths are re-run natively (real Go, real libraries) under the model the
	// solver produced for them; the native run must agree with the engine (translator validation, DESIGN 7)
	agreeOK, agreeBad := 0, 0
	if !*noReplay && !*noAgree {
		perHarness := 1
		if *tier == "thorough" {
			perHarness = 3
		}
		for _, r := range results {
			if r.spec.NoNativeReplay || len(r.ex.Violations) > 0 {
				continue
			}
			for i, pp := range r.ex.PassingPaths {
				if i >= perHarness {
					break
				}
				ok, txt, err := nativeReplay(*specPath, *tier, pp)
				switch {
				case err != nil:
					inconcl = append(inconcl, r.spec.Name+": agreement replay could not run: "+err.Error())
				case ok:
					agreeOK++
				default:
					agreeBad++
					inconcl = append(inconcl, fmt.Sprintf("%s: a path the engine closed without violation does not replay natively the same way (decisions %v): %s", r.spec.Name, pp.Decisions, oneLine(lastLines(txt, 4))))
				}
			}
		}
	}

	// violations: distinct by (harness,label,kind,known)
	os.MkdirAll(filepath.Join(verifRoot, "evidence", "cex"), 0o755)
	seen := map[string]bool{}
	nviol := 0
	for _, v := range allViol {
		if v.Known != "" {
			knownSeen[v.Known]++
			continue
		}
		key := v.Harness + "|" + v.Label + "|" + v.Kind + "|" + v.Msg
		if seen[key] {
			continue
		}
		seen[key] = true
		nviol++
		path := filepath.Join(verifRoot, "evidence", "cex", fmt.Sprintf("%s-%d.json", spec.Property, nviol))
		vb, _ := json.MarshalIndent(map[string]interface{}{"property": spec.Property, "violation": v, "spec": *specPath, "tier": *tier}, "", " ")
		os.WriteFile(path, vb, 0o644)
		replayNote := "native replay: not attempted"
		if noNative[v.Harness] {
			replayNote = "native replay: not applicable (the harness observes model state: shadow memory / seal log / schedule); counterexample = decision vector + model in the file above"
		} else if !*noReplay {
			ok, txt, err := nativeReplay(*specPath, *tier, v)
			switch {
			case err != nil:
				replayNote = "native replay: could not run (" + oneLine(err.Error()) + ")"
			case ok:
				replayNote = "native replay: CONFIRMED against the real build"
			default:
				replayNote = "native replay: NOT reproduced"
				if strings.Contains(txt, "VXREPLAY") {
					// the native run completed and disagrees with the engine: the machinery is suspect
					inconcl = append(inconcl, fmt.Sprintf("%s: violation %s found symbolically did not reproduce natively", v.Harness, v.Label))
					fmt.Printf("UNCONFIRMED property=%s label=%s (kept as %s; not reported as a violation)\n", spec.Property, v.Label, path)
					nviol--
					continue
				}
				replayNote += " (native run did not complete: " + oneLine(lastLines(txt, 3)) + ")"
			}
		}
		fmt.Printf("VIOLATION property=%s replay=%s\n", spec.Property, path)
		fmt.Printf("  harness=%s label=%s kind=%s %s\n  %s\n", v.Harness, v.Label, v.Kind, oneLine(v.Msg), replayNote)
		if exit == 0 || exit == 2 {
			exit = 1
		}
	}
	var kids []string
	for id := range knownSeen {
		kids = append(kids, id)
	}
	sort.Strings(kids)
	for _, id := range kids {
		fmt.Printf("KNOWN-FINDING: property=%s %s [class %s, %d path(s)]\n", spec.Property, knownByID[id].What, id, knownSeen[id])
	}
	if len(inconcl) > 0 && exit == 0 {
		exit = 2
	}
	for i, r := range inconcl {
		if i < 8 {
			fmt.Printf("INCONCLUSIVE property=%s reason=%s\n", spec.Property, oneLine(r))
		}
	}

	// evidence
	if !*noEvidence {
		paths, decisions, queries, oblig := 0, 0, 0, 0
		var samples []map[string]interface{}
		fnEnc := map[string]int{}
		stubs := map[string]int{}
		reach := map[string]int{}
		var solverS, loadS float64
		sat, unsat, unk, errs := 0, 0, 0, 0
		cross := map[string]int{}
		harn := []map[string]interface{}{}
		for _, r := range results {
			paths += r.ex.Paths
			decisions += r.ex.Decisions
			queries += r.ex.Queries
			oblig += r.ex.Obligations
			samples = append(samples, r.ex.Samples...)
			for k, v := range r.ex.FnStats {
				fnEnc[k] += v
			}
			for k, v := range r.ex.Stubs {
				stubs[k] += v
			}
			for k, v := range r.ex.Reach {
				reach[r.spec.Name+":"+k] += v
			}
			for k, v := range r.ex.Notes {
				if strings.HasPrefix(k, "xcheck.") {
					cross[strings.TrimPrefix(k, "xcheck.")] += v
				}
			}
			solverS += r.ex.Solver.Time.Seconds()
			loadS += r.prog.LoadS
			sat += r.ex.Solver.Sat
			unsat += r.ex.Solver.Unsat
			unk += r.ex.Solver.Unknown
			errs += r.ex.Solver.Errors
			harn = append(harn, map[string]interface{}{"name": r.spec.Name, "about": r.spec.About, "paths": r.ex.Paths, "infeasible_paths": r.ex.Infeasible,
				"decisions": r.ex.Decisions, "queries": r.ex.Queries, "cover_obligations": r.ex.Obligations, "asserts_symbolic": r.ex.AssertsSym,
				"asserts_concrete": r.ex.AssertsConc, "thread_switches": r.ex.Switches, "ssa_instructions": r.ex.Steps, "wall_s": r.ex.Wall, "params": r.params,
				"violations": len(r.ex.Violations)})
		}
		if len(samples) > 6 {
			samples = samples[:6]
		}
		if len(samples) == 0 {
			samples = append(samples, map[string]interface{}{"note": "no completed path"})
		}
		var fnList []string
		for k, v := range fnEnc {
			fnList = append(fnList, fmt.Sprintf("%s x%d", k, v))
		}
		sort.Strings(fnList)
		ev := map[string]interface{}{
			"property_id": spec.Property,
			"tier":        *tier,
			"seed":        seed,
			"level":       "model_checking",
			"coverage": map[string]interface{}{
				"states":                        max(paths, 0),
				"transitions":                   decisions,
				"traces_validated_against_impl": agreeOK,
				"samples":                       samples,
				"technique":                     "bounded symbolic execution of the repo's Go SSA (gosx) with z3 deciding every branch feasibility, cover obligation and assertion",
				"functions_encoded":             fnList,
				"bounds":                        spec.Bounds,
				"harnesses":                     harn,
				"queries":                       map[string]int{"total": queries, "sat": sat, "unsat": unsat, "unknown": unk, "errors": errs},
				"obligations_cover":             oblig,
				"solver_time_s":                 solverS,
				"load_ssa_s":                    loadS,
				"stubs_hit":                     stubs,
				"reach_markers":                 reach,
				"known_findings_seen":           knownSeen,
				"cross_checked":                 cross,
				"agreement_replays":             map[string]int{"agree": agreeOK, "disagree": agreeBad},
				"inconclusive":                  inconcl,
				"exhaustive":                    len(inconcl) == 0,
			},
			"assumptions": spec.Assumptions,
			"wall_s":      time.Since(t0).Seconds(),
			"violations":  nviol,
		}
		eb, _ := json.MarshalIndent(ev, "", " ")
		os.WriteFile(filepath.Join(verifRoot, "evidence", spec.Property+".json"), eb, 0o644)
	}
	if exit == 0 {
		fmt.Printf("OK property=%s tier=%s wall=%.1fs\n", spec.Property, *tier, time.Since(t0).Seconds())
	}
	return exit
}

type multiFlag []string

func (m *multiFlag) String() string     { return strings.Join(*m, ",") }
func (m *multiFlag) Set(v string) error { *m = append(*m, v); return nil }

func mergeTier(q, t tierSpec) tierSpec {
	out := q
	if t.Params != nil {
		out.Params = map[string]int{}
		for k, v := range q.Params {
			out.Params[k] = v
		}
		for k, v := range t.Params {
			out.Params[k] = v
		}
	}
	if t.MaxSteps != 0 {
		out.MaxSteps = t.MaxSteps
	}
	if t.MaxSplit != 0 {
		out.MaxSplit = t.MaxSplit
	}
	if t.PreemptBound != 0 {
		out.PreemptBound = t.PreemptBound
	}
	if t.FreeSwitch != 0 {
		out.FreeSwitch = t.FreeSwitch
	}
	if t.MaxPaths != 0 {
		out.MaxPaths = t.MaxPaths
	}
	if t.TimeoutMs != 0 {
		out.TimeoutMs = t.TimeoutMs
	}
	if t.BudgetS != 0 {
		out.BudgetS = t.BudgetS
	}
	out.Skip = t.Skip
	return out
}

func orDefault(v, d int) int {
	if v == 0 {
		return d
	}
	return v
}

func oneLine(s string) string {
	s = strings.ReplaceAll(s, "\n", " | ")
	if len(s) > 600 {
		s = s[:600] + "..."
	}
	return s
}

func isFlagSet(fs *flag.FlagSet, name string) bool {
	set := false
	fs.Visit(func(f *flag.Flag) {
		if f.Name == name {
			set = true
		}
	})
	return set
}

func lastLines(s string, n int) string {
	ls := strings.Split(strings.TrimSpace(s), "\n")
	if len(ls) > n {
		ls = ls[len(ls)-n:]
	}
	return strings.Join(ls, " | ")
}
