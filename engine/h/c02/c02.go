// Package c02: a record is handed out only once its whole key chain is durably in the metastore.
package c02

import (
	"time"

	ae "github.com/godaddy/asherah/go/appencryption"

	"verifh/h/env"
	"verifh/vx"
)

func secs(d time.Duration) int64 { return int64(d / time.Second) }

const (
	stCold = iota
	stWarm
	stExpired
	stIKRevoked
	stSKRevoked
	numStates
)

func oracle(e *env.Env, pol env.PolicyChoice, drr *ae.DataRowRecord, payload []byte, tag string) {
	vx.Assert("C02.record_complete", drr != nil && drr.Key != nil && drr.Key.ParentKeyMeta != nil)
	ik := e.Store.Row(drr.Key.ParentKeyMeta.ID, drr.Key.ParentKeyMeta.Created)
	vx.Assert("C02.ik_row_durable", ik != nil)
	if ik == nil {
		vx.Stop()
	}
	vx.Assert("C02.ik_row_has_parent", ik.ParentKeyMeta != nil)
	sk := e.Store.Row(ik.ParentKeyMeta.ID, ik.ParentKeyMeta.Created)
	vx.Assert("C02.sk_row_durable", sk != nil)
	pt, ok := e.RefDecrypt(drr)
	vx.Assert("C02.reference_decrypts", vx.And(ok, vx.BytesEq(pt, payload)))
	// crash right after the encrypt: a fresh process with only store + KMS
	f := e.Factory(e.Policy(pol, env.CacheDefault))
	s, _ := f.GetSession("p0")
	out, err := s.Decrypt(env.Ctx, *drr)
	vx.Assert("C02.fresh_process_decrypts", vx.And(err == nil, vx.BytesEq(out, payload)))
	s.Close()
	f.Close()
	vx.Reach("C02.oracle_" + tag)
}

func sfx(e *env.Env) string {
	if e.Store.Suffix == "" {
		return ""
	}
	return "_" + e.Store.Suffix
}

// Faults: one encrypt under up to B metastore/KMS faults from each start state, then a fault-free one.
func Faults() {
	e := env.New()
	if vx.Param("suffixed") == 1 {
		// a region-suffixing metastore (DynamoDB global tables): key ids carry the region, the chain must still close
		e.Store.Suffix = "us-west-2"
	}
	pol := env.Policies[vx.Choice("policy", vx.Param("policies"))]
	cache := vx.Choice("cache", vx.Param("caches"))
	f := e.Factory(e.Policy(pol, cache))
	sess, _ := f.GetSession("p0")
	start := vx.Choice("start", numStates)
	t0, _ := vx.Now()
	vx.ClockFreeze(true)
	if start != stCold {
		_, err := sess.Encrypt(env.Ctx, []byte{0})
		vx.Assert("C02.setup_ok", err == nil)
	}
	vx.ClockFreeze(false)
	switch start {
	case stExpired:
		vx.ClockMin(t0 + secs(pol.Expire) + secs(pol.Precision) + 2)
	case stIKRevoked:
		e.Store.Latest(env.IKID("p0") + sfx(e)).Revoked = true
		vx.ClockMin(t0 + 2*secs(pol.Revoke) + 2)
	case stSKRevoked:
		e.Store.Latest(env.SKID() + sfx(e)).Revoked = true
		vx.ClockMin(t0 + 2*secs(pol.Revoke) + 2)
	}
	vx.Now()
	// freeze=0: time also advances inside the call under test (every reading of the clock is a later-or-equal
	// instant: a KMS round trip may straddle a CreateDatePrecision boundary)
	vx.ClockFreeze(vx.Param("freeze") == 1)
	snap := e.Store.Snapshot()
	payload := vx.Bytes("payload", 2)
	keep := append([]byte(nil), payload...)
	vx.FaultBudget("ext", vx.Param("faults"))
	drr, err := sess.Encrypt(env.Ctx, payload)
	vx.FaultBudget("ext", 0)
	vx.Assert("C02.no_stored_row_changed", e.Store.Unchanged(snap))
	if err == nil {
		oracle(e, pol, drr, keep, "under_faults")
	} else {
		vx.Assert("C02.error_means_no_record", drr == nil)
		vx.Reach("C02.failed_under_faults")
	}
	// once the faults stop the next operation succeeds
	vx.ClockFreeze(false)
	vx.Now()
	vx.ClockFreeze(true)
	drr2, err := sess.Encrypt(env.Ctx, payload)
	vx.Assert("C02.recovers_after_faults", err == nil)
	if err == nil {
		oracle(e, pol, drr2, keep, "recovery")
	}
	vx.Assert("C02.no_stored_row_changed", e.Store.Unchanged(snap))
	vx.Reach("C02.end")
}
