// Package c18: stored and wire formats follow the documented layout.
package c18

import (
	"encoding/json"

	ae "github.com/godaddy/asherah/go/appencryption"
	"github.com/godaddy/asherah/go/appencryption/pkg/crypto/aead"

	"verifh/h/env"
	"verifh/vx"
)

// AeadLayout: Encrypt output is ciphertext(|data|) || tag(16) || nonce(12) with nonce = that call's random draw,
// and Decrypt reads the same offsets: a reference-built ciphertext is accepted and the SDK's output is what a
// reference decoder expects.
func AeadLayout() {
	c := aead.NewAES256GCM()
	n := vx.Choice("len", vx.Param("maxlen")+1)
	data := vx.Bytes("data", n)
	key := vx.Bytes("key", 32)
	keep := append([]byte(nil), data...)
	// the data may be a window of a larger caller-owned buffer
	var whole []byte
	if vx.Choice("spare_capacity", 2) == 1 {
		whole = make([]byte, n, n+40)
		copy(whole, data)
		data = whole
	}
	d0, s0 := vx.DrawCount(), vx.SealCount()
	out, err := c.Encrypt(data, key)
	vx.Assert("C18.encrypt_ok", err == nil)
	vx.Assert("C18.length_is_data_plus_28", len(out) == n+16+12)
	vx.Assert("C18.exactly_one_seal_and_one_draw", vx.SealCount() == s0+1 && vx.DrawCount() == d0+1)
	// documented layout, rebuilt independently from the AEAD call that happened
	ref := append(append([]byte(nil), vx.SealOut(s0)...), vx.SealNonce(s0)...)
	vx.Assert("C18.layout_ct_tag_nonce", vx.BytesEq(out, ref))
	vx.Assert("C18.nonce_is_the_trailing_12_bytes", vx.BytesEq(out[len(out)-12:], vx.SealNonce(s0)))
	vx.Assert("C18.nonce_is_this_calls_random_draw", vx.IsDraw(out[len(out)-12:], d0))
	vx.Assert("C18.sealed_under_given_key", vx.BytesEq(vx.SealKey(s0), key))
	vx.Assert("C18.plaintext_is_the_data", vx.BytesEq(vx.SealPlain(s0), keep))
	vx.Assert("C18.input_not_modified", vx.BytesEq(data, keep))
	if whole != nil {
		vx.Assert("C18.buffer_behind_input_untouched", vx.AllZero(whole[n:cap(whole)]))
		vx.Assert("C18.output_does_not_alias_input", n == 0 || &out[0] != &whole[0])
	}
	// SDK reads what a reference writer produces (same bytes, rebuilt), and rejects a moved nonce
	pt, err := c.Decrypt(ref, key)
	vx.Assert("C18.reference_ciphertext_accepted", vx.And(err == nil, vx.BytesEq(pt, keep)))
	if n > 0 {
		moved := append(append([]byte(nil), vx.SealNonce(s0)...), vx.SealOut(s0)...) // nonce first: the wrong layout
		_, err = c.Decrypt(moved, key)
		// rejected unless the two layouts happen to be the same byte string
		vx.Assert("C18.nonce_first_layout_rejected", vx.Or(err != nil, vx.BytesEq(moved, ref)))
	}
	// invalid key sizes are errors, short inputs are errors (no slicing panic)
	_, err = c.Encrypt(data, key[:31])
	vx.Assert("C18.short_key_rejected", err != nil)
	short := vx.BytesUpTo("short", 11)
	_, err = c.Decrypt(short, key)
	vx.Assert("C18.short_ciphertext_rejected", err != nil)
	vx.Reach("C18.aead_end")
}

// ---- JSON shapes (tag-driven model) ----

// documented shapes, written from docs/DesignAndArchitecture.md and the cross-language feature files
type docKeyMeta struct {
	KeyId   string `json:"KeyId"`
	Created int64  `json:"Created"`
}

type docKey struct {
	Revoked       bool        `json:"Revoked,omitempty"`
	Created       int64       `json:"Created"`
	Key           []byte      `json:"Key"`
	ParentKeyMeta *docKeyMeta `json:"ParentKeyMeta,omitempty"`
}

type docDRR struct {
	Key  *docKey `json:"Key"`
	Data []byte  `json:"Data"`
}

const (
	shapeDRR        = `{"Key":{"Created":#number,"Key":#base64,"ParentKeyMeta":{"KeyId":#string,"Created":#number}},"Data":#base64}`
	shapeDRRRevoked = `{"Key":{"Revoked":true,"Created":#number,"Key":#base64,"ParentKeyMeta":{"KeyId":#string,"Created":#number}},"Data":#base64}`
	shapeSK         = `{"Created":#number,"Key":#base64}`
)

// JsonShape: SDK records serialise to the documented shape; a reference reader/writer built from the
// documentation exchanges records with the SDK types in both directions.
func JsonShape() {
	rev := vx.Bool("revoked")
	d := ae.DataRowRecord{
		Data: vx.Bytes("data", 3),
		Key: &ae.EnvelopeKeyRecord{
			Revoked:       rev,
			ID:            "must-not-be-serialised",
			Created:       vx.Int64("created"),
			EncryptedKey:  vx.Bytes("key", 3),
			ParentKeyMeta: &ae.KeyMeta{ID: "_IK_p_s_p!", Created: vx.Int64("pcreated")},
		},
	}
	b, err := json.Marshal(d)
	vx.Assert("C18.json_marshal_ok", err == nil)
	shape := vx.JSONShape(b)
	if rev {
		vx.Assert("C18.json_shape_revoked", shape == shapeDRRRevoked)
	} else {
		vx.Assert("C18.json_shape", shape == shapeDRR)
		vx.Reach("C18.json_not_revoked")
	}
	// SDK writes, reference reads
	var ref docDRR
	vx.Assert("C18.reference_reads_sdk_json", json.Unmarshal(b, &ref) == nil)
	ok := vx.And(vx.BytesEq(ref.Data, d.Data), ref.Key != nil && ref.Key.ParentKeyMeta != nil)
	if ref.Key != nil && ref.Key.ParentKeyMeta != nil {
		ok = vx.And(ok, vx.BytesEq(ref.Key.Key, d.Key.EncryptedKey))
		ok = vx.And(ok, ref.Key.Created == d.Key.Created)
		ok = vx.And(ok, ref.Key.Revoked == d.Key.Revoked)
		ok = vx.And(ok, ref.Key.ParentKeyMeta.KeyId == d.Key.ParentKeyMeta.ID)
		ok = vx.And(ok, ref.Key.ParentKeyMeta.Created == d.Key.ParentKeyMeta.Created)
	}
	vx.Assert("C18.reference_sees_every_field", ok)
	// reference writes, SDK reads
	rb, _ := json.Marshal(ref)
	var back ae.DataRowRecord
	vx.Assert("C18.sdk_reads_reference_json", json.Unmarshal(rb, &back) == nil)
	same := vx.And(vx.BytesEq(back.Data, d.Data), back.Key != nil && back.Key.ParentKeyMeta != nil)
	if back.Key != nil && back.Key.ParentKeyMeta != nil {
		same = vx.And(same, vx.BytesEq(back.Key.EncryptedKey, d.Key.EncryptedKey))
		same = vx.And(same, back.Key.Created == d.Key.Created)
		same = vx.And(same, back.Key.Revoked == d.Key.Revoked)
		same = vx.And(same, back.Key.ParentKeyMeta.ID == d.Key.ParentKeyMeta.ID)
		same = vx.And(same, back.Key.ParentKeyMeta.Created == d.Key.ParentKeyMeta.Created)
		vx.Assert("C18.id_is_not_on_the_wire", back.Key.ID == "")
	}
	vx.Assert("C18.sdk_recovers_every_field", same)
	// a system key record (no parent) omits ParentKeyMeta and Revoked
	sk := ae.EnvelopeKeyRecord{ID: "_SK_s_p", Created: vx.Int64("skc"), EncryptedKey: vx.Bytes("skk", 3)}
	sb, _ := json.Marshal(sk)
	vx.Assert("C18.json_shape_system_key", vx.JSONShape(sb) == shapeSK)
	vx.Reach("C18.json_end")
}


// IdsOnTheWire: the key ids a real session emits - in the data row record and as metastore keys - are the documented
// _SK_service_product / _IK_partition_service_product, with _region appended when the metastore is region-suffixed
// (service and product differ, so a swap shows).
func IdsOnTheWire() {
	e := env.New()
	suffix := ""
	if vx.Choice("suffixed", 2) == 1 {
		suffix = "us-west-2"
		e.Store.Suffix = suffix
	}
	f := e.Factory(e.Policy(env.Policies[0], env.CacheDefault))
	vx.Now()
	vx.ClockFreeze(true)
	s, err := f.GetSession("part1")
	vx.Assert("C18.ids_getsession", err == nil)
	rec, err := s.Encrypt(env.Ctx, vx.Bytes("payload", 2))
	vx.Assert("C18.ids_encrypt_ok", err == nil)
	if err != nil {
		vx.Stop()
	}
	wantIK := "_IK_part1_" + env.Service + "_" + env.Product
	wantSK := "_SK_" + env.Service + "_" + env.Product
	if suffix != "" {
		wantIK += "_" + suffix
		wantSK += "_" + suffix
	}
	vx.Assert("C18.record_names_documented_ik_id", rec.Key.ParentKeyMeta.ID == wantIK)
	ik := e.Store.Row(wantIK, rec.Key.ParentKeyMeta.Created)
	vx.Assert("C18.ik_stored_under_documented_id", ik != nil)
	if ik != nil && ik.ParentKeyMeta != nil {
		vx.Assert("C18.ik_names_documented_sk_id", ik.ParentKeyMeta.ID == wantSK)
		vx.Assert("C18.sk_stored_under_documented_id", e.Store.Row(wantSK, ik.ParentKeyMeta.Created) != nil)
	} else {
		vx.Assert("C18.ik_row_has_parent", false)
	}
	vx.Reach("C18.ids_wire_end")
}
