// Package c18: stored and wire formats follow the documented layout.
package c18

import (
	"github.com/godaddy/asherah/go/appencryption/pkg/crypto/aead"

	"verifh/vx"
)

// AeadLayout: Encrypt output is ciphertext(|data|) || tag(16) || nonce(12) with nonce = that call's random draw,
// and Decrypt reads the same offsets: a reference-built ciphertext is accepted and the SDK's output is what a
// reference decoder expects.
func AeadLayout() {
	c := aead.NewAES256GCM()
	n := vx.Choice("len", vx.Param("maxlen")+1)
	data := vx.Bytes("data", n)
	key := vx.Bytes("key", 32)
	keep := append([]byte(nil), data...)
	d0, s0 := vx.DrawCount(), vx.SealCount()
	out, err := c.Encrypt(data, key)
	vx.Assert("C18.encrypt_ok", err == nil)
	vx.Assert("C18.length_is_data_plus_28", len(out) == n+16+12)
	vx.Assert("C18.exactly_one_seal_and_one_draw", vx.SealCount() == s0+1 && vx.DrawCount() == d0+1)
	// documented layout, rebuilt independently from the AEAD call that happened
	ref := append(append([]byte(nil), vx.SealOut(s0)...), vx.SealNonce(s0)...)
	vx.Assert("C18.layout_ct_tag_nonce", vx.BytesEq(out, ref))
	vx.Assert("C18.nonce_is_the_trailing_12_bytes", vx.BytesEq(out[len(out)-12:], vx.SealNonce(s0)))
	vx.Assert("C18.nonce_is_this_calls_random_draw", vx.IsDraw(out[len(out)-12:], d0))
	vx.Assert("C18.sealed_under_given_key", vx.BytesEq(vx.SealKey(s0), key))
	vx.Assert("C18.plaintext_is_the_data", vx.BytesEq(vx.SealPlain(s0), keep))
	vx.Assert("C18.input_not_modified", vx.BytesEq(data, keep))
	// SDK reads what a reference writer produces (same bytes, rebuilt), and rejects a moved nonce
	pt, err := c.Decrypt(ref, key)
	vx.Assert("C18.reference_ciphertext_accepted", vx.And(err == nil, vx.BytesEq(pt, keep)))
	if n > 0 {
		moved := append(append([]byte(nil), vx.SealNonce(s0)...), vx.SealOut(s0)...) // nonce first: the wrong layout
		_, err = c.Decrypt(moved, key)
		// rejected unless the two layouts happen to be the same byte string
		vx.Assert("C18.nonce_first_layout_rejected", vx.Or(err != nil, vx.BytesEq(moved, ref)))
	}
	// invalid key sizes are errors, short inputs are errors (no slicing panic)
	_, err = c.Encrypt(data, key[:31])
	vx.Assert("C18.short_key_rejected", err != nil)
	short := vx.BytesUpTo("short", 11)
	_, err = c.Decrypt(short, key)
	vx.Assert("C18.short_ciphertext_rejected", err != nil)
	vx.Reach("C18.aead_end")
}
