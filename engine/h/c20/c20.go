// Package c20: key caching avoids external calls, and only for one revoke-check interval.
package c20

import (
	"time"

	ae "github.com/godaddy/asherah/go/appencryption"

	"verifh/h/env"
	"verifh/vx"
)

func secs(d time.Duration) int64 { return int64(d / time.Second) }

// Steady: warm a session, then repeat encrypt/decrypt at arbitrary later instants and count external calls.
func Steady() {
	e := env.New()
	pol := env.Policies[vx.Choice("policy", vx.Param("policies"))]
	cache := env.CacheChoice()
	f := e.Factory(e.Policy(pol, cache))
	sess, _ := f.GetSession("p0")
	I, E := secs(pol.Revoke), secs(pol.Expire)
	tick := func() (int64, int64) {
		vx.ClockFreeze(false)
		s, n := vx.Now()
		vx.ClockFreeze(true)
		return s, n
	}
	t0s, t0n := tick()
	rec, err := sess.Encrypt(env.Ctx, []byte{1})
	vx.Assert("C20.warm_ok", err == nil)
	if err != nil {
		vx.Stop()
	}
	// a decrypt right away (same instant) to fill the by-(id,created) entry as well
	_, err = sess.Decrypt(env.Ctx, *rec)
	vx.Assert("C20.warm_decrypt_ok", err == nil)
	N := vx.Param("N")
	// ls/ln: the instant at which the keys were last (re)loaded - the warm-up, or the last operation that went to the store
	// last confirmation instants, per key: (les,len) for the IK the session currently encrypts under, (lds,ldn) for
	// the IK of the first record (what the decrypt operation needs); they are the same entry while no rotation happened
	les, len_ := t0s, t0n
	lds, ldn := t0s, t0n
	ik0 := rec.Key.ParentKeyMeta.Created
	ikc := ik0
	skc := e.Store.Row(env.IKID("p0"), ikc).ParentKeyMeta.Created
	sk0 := skc
	for i := 0; i < N; i++ {
		ts, tn := tick()
		m0, k0 := e.Store.Calls(), e.KMS.Encs+e.KMS.Decs
		isEnc := vx.Choice("op", 2) == 0
		rotated := ikc != ik0
		var within bool
		if isEnc {
			// rotation on expiry is a legitimate reason to go to the store
			within = vx.And(vx.TimeLE(ts, tn, les+I, len_), vx.And(vx.TimeLE(ts, tn, ikc+E, 0), vx.TimeLE(ts, tn, skc+E, 0)))
			var r2 *ae.DataRowRecord
			r2, err = sess.Encrypt(env.Ctx, []byte{2})
			if err == nil {
				ikc = r2.Key.ParentKeyMeta.Created
				if row := e.Store.Row(env.IKID("p0"), ikc); row != nil {
					skc = row.ParentKeyMeta.Created
				}
			}
		} else {
			within = vx.TimeLE(ts, tn, lds+I, ldn)
			_, err = sess.Decrypt(env.Ctx, *rec)
		}
		vx.Assert("C20.op_ok", err == nil)
		dm, dk := e.Store.Calls()-m0, e.KMS.Encs+e.KMS.Decs-k0
		if env.NoCaching(cache) {
			vx.Assert("C20.nocache_rereads", dm > 0)
			vx.Assert("C20.nocache_retains_nothing", e.Secrets.Live() == 0)
		} else {
			// "a working set that fits the cache": after a rotation the session works with two key generations (the
			// old record's keys and the current ones), which a capacity-1 cache cannot hold at once
			fits := !(rotated && (cache == env.CacheLRU1 || cache == env.CacheSharedLRU1 || cache == env.CacheLFU1))
			vx.Assert("C20.no_external_calls_within_interval", vx.Implies(vx.And(within, fits), dm == 0 && dk == 0))
			// ... and only for one interval: the first use after it re-reads the key's record before using the key
			// (a key already known to be unusable for new data - revoked, or under an expired system key - has
			// nothing left to learn from a re-read, so the obligation is stated for keys whose chain is still valid)
			chainValid := vx.TimeLE(ts, tn, sk0+E, 0)
			vx.Assert("C20.key_record_re_read_after_interval", vx.Implies(vx.And(vx.Not(within), chainValid), dm >= 1))
			if dm > 0 {
				vx.Reach("C20.reloaded_after_interval")
				// the re-read refreshes that key's entry: its next interval starts now
				same := ikc == ik0
				if isEnc || same {
					les, len_ = ts, tn
				}
				if !isEnc || same {
					lds, ldn = ts, tn
				}
			} else {
				vx.Reach("C20.cache_hit")
			}
		}
	}
	vx.Reach("C20.end")
}

// SharedSK: many sessions and partitions of one factory; the SK is unwrapped by the KMS at most once per interval.
func SharedSK() {
	e := env.New()
	pol := env.Policies[vx.Choice("policy", vx.Param("policies"))]
	cache := vx.Choice("cache", vx.Param("caches"))
	// another process created the keys earlier
	f0 := e.Factory(e.Policy(pol, env.CacheDefault))
	s0, _ := f0.GetSession("p0")
	vx.Now()
	vx.ClockFreeze(true)
	rec0, err := s0.Encrypt(env.Ctx, []byte{1})
	vx.Assert("C20.seed_ok", err == nil)
	s0.Close()
	f0.Close()
	d0 := e.KMS.Decs
	// fresh factory: all of the following happens at one instant (well within one interval)
	vx.ClockFreeze(false)
	vx.Now()
	vx.ClockFreeze(true)
	f := e.Factory(e.Policy(pol, cache))
	parts := []string{"p0", "p1", "p2"}
	S := vx.Param("S")
	for i := 0; i < S; i++ {
		s, _ := f.GetSession(parts[vx.Choice("part", len(parts))])
		if vx.Choice("op", 2) == 0 {
			_, err = s.Encrypt(env.Ctx, []byte{3})
			vx.Assert("C20.shared_encrypt_ok", err == nil)
		} else if p0, _ := f.GetSession("p0"); p0 != nil {
			_, err = p0.Decrypt(env.Ctx, *rec0)
			vx.Assert("C20.shared_decrypt_ok", err == nil)
			p0.Close()
		}
		s.Close()
	}
	if !env.NoCaching(cache) && e.Store.Rows(env.SKID()) == 1 {
		// (one system key in play: after a rotation two generations are in use, each unwrapped on its own account,
		// and a capacity-1 system-key cache cannot hold both)
		vx.Assert("C20.sk_unwrapped_at_most_once_per_interval", e.KMS.Decs-d0 <= 1)
	}
	vx.Reach("C20.shared_end")
}

// SharedSKConcurrent: two goroutines (two sessions, two partitions) of one factory need the same system key at the
// same time - first on a cold factory, then again after the revoke-check interval. Under every schedule the KMS
// unwraps the system key at most once per interval and its record is read once.
func SharedSKConcurrent() {
	e := env.New()
	polc := env.Policies[1]
	// another process created the keys earlier
	f0 := e.Factory(e.Policy(polc, env.CacheDefault))
	t0, _ := vx.Now()
	vx.ClockFreeze(true)
	parts := []string{"p0", "p1"}
	recs := make([]*ae.DataRowRecord, len(parts))
	for i, p := range parts {
		s, _ := f0.GetSession(p)
		r, err := s.Encrypt(env.Ctx, []byte{byte(50 + i)})
		vx.Assert("C20.seed_ok", err == nil)
		recs[i] = r
		s.Close()
	}
	f0.Close()
	// caching configurations under which the working set (two intermediate keys, one system key) fits
	cfgs := []int{env.CacheDefault, env.CacheSLRU2, env.CacheSessionSLRU1}
	f := e.Factory(e.Policy(polc, cfgs[vx.Choice("cache", vx.Param("caches"))]))
	sess := make([]*ae.Session, len(parts))
	for i, p := range parts {
		sess[i], _ = f.GetSession(p)
	}
	round := func(tag string) {
		d0, l0 := e.KMS.Decs, e.Store.Loads
		done := make(chan bool, len(parts))
		for i := range parts {
			go func(i int) {
				out, err := sess[i].Decrypt(env.Ctx, *recs[i])
				done <- err == nil && len(out) == 1 && out[0] == byte(50+i)
			}(i)
		}
		for range parts {
			ok := <-done
			vx.Assert("C20.concurrent_decrypt_ok", ok)
		}
		vx.Assert("C20.sk_unwrapped_at_most_once_per_interval_concurrently", e.KMS.Decs-d0 <= 1)
		// one read per key: the two intermediate keys and the one system key
		vx.Assert("C20.each_key_record_read_once", e.Store.Loads-l0 <= 3)
		vx.Reach("C20.concurrent_" + tag)
	}
	round("cold")
	// same instant again: everything is cached
	d0, m0 := e.KMS.Decs, e.Store.Calls()
	round("warm")
	vx.Assert("C20.concurrent_warm_no_external_calls", e.KMS.Decs == d0 && e.Store.Calls() == m0)
	// after the interval every entry is stale at once
	vx.ClockFreeze(false)
	vx.ClockMin(t0 + secs(polc.Revoke) + 1)
	vx.Now()
	vx.ClockFreeze(true)
	round("stale")
	vx.Reach("C20.concurrent_end")
}

// SharedFits: a factory-wide (shared) intermediate-key cache whose configured capacity holds one key per partition in
// use, next to a small system-key cache (a service has one system key). Once every partition is warm, repeating an
// encrypt and a decrypt on each of them inside the interval makes no metastore and no KMS call: the working set fits
// the cache as configured.
func SharedFits() {
	e := env.New()
	polc := env.Policies[0]
	pol := e.Policy(polc, env.CacheDefault)
	ae.WithSharedIntermediateKeyCache(3)(pol)
	pol.IntermediateKeyCacheEvictionPolicy = []string{"lru", "slru", "lfu"}[vx.Choice("ikpolicy", vx.Param("ikpolicies"))]
	pol.SystemKeyCacheMaxSize = 1
	pol.SystemKeyCacheEvictionPolicy = "lru"
	f := e.Factory(pol)
	vx.Now()
	vx.ClockFreeze(true)
	parts := []string{"p0", "p1", "p2"}
	sess := make([]*ae.Session, len(parts))
	recs := make([]*ae.DataRowRecord, len(parts))
	for i, p := range parts {
		sess[i], _ = f.GetSession(p)
		r, err := sess[i].Encrypt(env.Ctx, []byte{byte(70 + i)})
		vx.Assert("C20.fits_warm_ok", err == nil)
		recs[i] = r
	}
	for round := 0; round < 2; round++ {
		for i := range parts {
			m0, k0 := e.Store.Calls(), e.KMS.Encs+e.KMS.Decs
			_, err := sess[i].Encrypt(env.Ctx, []byte{1})
			vx.Assert("C20.fits_repeat_encrypt_ok", err == nil)
			out, err := sess[i].Decrypt(env.Ctx, *recs[i])
			vx.Assert("C20.fits_repeat_decrypt_ok", vx.And(err == nil, vx.BytesEq(out, []byte{byte(70 + i)})))
			vx.Assert("C20.working_set_that_fits_makes_no_external_calls", e.Store.Calls() == m0 && e.KMS.Encs+e.KMS.Decs == k0)
		}
	}
	vx.Reach("C20.fits_end")
}
