// Package c15: the generic cache against a reference model, for every policy.
package c15

import (
	"time"

	"github.com/godaddy/asherah/go/appencryption/pkg/cache"

	"verifh/vx"
)

type ev struct {
	k int
	v int64
}

// ---- reference model ----

type ent struct {
	k         int
	v         int64
	es, en    int64 // expiration instant
	freq      int
	protected bool
}

type model struct {
	policy  string
	cap     int
	protCap int
	// order lists hold keys, front = most recently used
	lru     []int       // lru: whole cache; slru: probation
	prot    []int       // slru: protected
	lfuSeq  map[int]int // order of arrival at the current frequency
	seq     int
	ents    map[int]*ent
	expiry  int64 // seconds, 0 = none
	closed  bool
	evicted []ev
}

func remove(xs []int, k int) []int {
	for i, x := range xs {
		if x == k {
			return append(append([]int{}, xs[:i]...), xs[i+1:]...)
		}
	}
	return xs
}

func (m *model) touch(k int) {
	e := m.ents[k]
	switch m.policy {
	case "lru":
		m.lru = append([]int{k}, remove(m.lru, k)...)
	case "lfu":
		e.freq++
		m.seq++
		m.lfuSeq[k] = m.seq
	case "slru":
		if e.protected {
			m.prot = append([]int{k}, remove(m.prot, k)...)
			return
		}
		e.protected = true
		m.lru = remove(m.lru, k)
		m.prot = append([]int{k}, m.prot...)
		if len(m.prot) > m.protCap {
			b := m.prot[len(m.prot)-1]
			m.prot = m.prot[:len(m.prot)-1]
			m.ents[b].protected = false
			m.lru = append([]int{b}, m.lru...)
		}
	}
}

func (m *model) admit(k int) {
	switch m.policy {
	case "lru", "slru":
		m.lru = append([]int{k}, m.lru...)
	case "lfu":
		m.ents[k].freq = 1
		m.seq++
		m.lfuSeq[k] = m.seq
	}
}

func (m *model) drop(k int) {
	m.lru = remove(m.lru, k)
	m.prot = remove(m.prot, k)
	delete(m.lfuSeq, k)
	delete(m.ents, k)
}

func (m *model) victim() int {
	switch m.policy {
	case "lru":
		return m.lru[len(m.lru)-1]
	case "slru":
		if len(m.lru) > 0 {
			return m.lru[len(m.lru)-1]
		}
		return m.prot[len(m.prot)-1]
	default: // lfu: lowest frequency, earliest arrival at that frequency
		best := -1
		for k, e := range m.ents {
			if best < 0 || e.freq < m.ents[best].freq || (e.freq == m.ents[best].freq && m.lfuSeq[k] < m.lfuSeq[best]) {
				best = k
			}
		}
		return best
	}
}

func (m *model) evict(k int) {
	m.evicted = append(m.evicted, ev{k, m.ents[k].v})
	m.drop(k)
}

func (m *model) set(k int, v int64, s, n int64) {
	if m.closed {
		return
	}
	if e, ok := m.ents[k]; ok {
		e.v = v
		if m.expiry > 0 {
			e.es, e.en = s+m.expiry, n
		}
		m.touch(k)
		return
	}
	if len(m.ents) == m.cap {
		m.evict(m.victim())
	}
	m.ents[k] = &ent{k: k, v: v, es: s + m.expiry, en: n}
	m.admit(k)
}

// get returns (value, found). expired tells whether the stored entry is expired at (s,n) - decided by the caller's fork.
func (m *model) get(k int, expired bool) (int64, bool) {
	if m.closed {
		return 0, false
	}
	e, ok := m.ents[k]
	if !ok {
		return 0, false
	}
	if m.expiry > 0 && expired {
		m.evict(k)
		return 0, false
	}
	m.touch(k)
	return e.v, true
}

func (m *model) del(k int) bool {
	if m.closed {
		return false
	}
	if _, ok := m.ents[k]; !ok {
		return false
	}
	m.drop(k)
	return true
}

func (m *model) close() {
	if m.closed {
		return
	}
	m.closed = true
	for len(m.ents) > 0 {
		m.evict(m.victim())
	}
}

var policies = []string{"lru", "lfu", "slru", "tinylfu"}

// Program: symbolic program of Set/Get/Delete/Close with clock advances against the reference model.
func Program() {
	pol := policies[vx.Choice("policy", vx.Param("policies"))]
	capacity := 1 + vx.Choice("cap", vx.Param("caps"))
	sync := vx.Choice("sync", 2) == 0
	withExpiry := vx.Choice("expiry", 2) == 1
	nkeys := capacity + 1
	if nkeys > vx.Param("maxkeys") {
		nkeys = vx.Param("maxkeys")
	}
	var got []ev
	b := cache.New[int, int64](capacity).WithPolicy(cache.CachePolicy(pol)).WithEvictFunc(func(k int, v int64) {
		got = append(got, ev{k, v})
	})
	if sync {
		b.Synchronous()
	}
	m := &model{policy: pol, cap: capacity, ents: map[int]*ent{}, lfuSeq: map[int]int{}}
	if pol == "tinylfu" {
		m.policy = "slru" // below capacity 100 the admission window is bypassed: pure SLRU
	}
	m.protCap = int(float64(capacity) * 0.8)
	if withExpiry {
		b.WithExpiry(10 * time.Second)
		m.expiry = 10
	}
	c := b.Build()
	// optional prefill: reach deeper policy states cheaply (fill to capacity, then touch every key once or twice)
	if pf := vx.Choice("prefill", vx.Param("prefills")); pf > 0 {
		vx.ClockFreeze(false)
		s0, n0 := vx.Now()
		vx.ClockFreeze(true)
		for k := 0; k < capacity && k < nkeys; k++ {
			v := vx.Int64("pv")
			c.Set(k, v)
			m.set(k, v, s0, n0)
		}
		for round := 1; round < pf; round++ {
			for k := 0; k < capacity && k < nkeys; k++ {
				c.Get(k)
				m.get(k, false)
			}
		}
		vx.Drain()
		vx.Reach("C15.prefilled")
	}
	L := vx.Param("L")
	for i := 0; i < L; i++ {
		vx.ClockFreeze(false)
		s, n := vx.Now()
		vx.ClockFreeze(true)
		switch vx.Choice("op", 4) {
		case 0:
			k, v := vx.Choice("k", nkeys), vx.Int64("v")
			c.Set(k, v)
			m.set(k, v, s, n)
		case 1:
			k := vx.Choice("k", nkeys)
			v, ok := c.Get(k)
			expired := false
			if e, present := m.ents[k]; present && m.expiry > 0 && !m.closed {
				// expiration.Before(now): fork on the symbolic instants exactly like the cache does
				expired = !vx.TimeLE(s, n, e.es, e.en)
			}
			mv, mok := m.get(k, expired)
			vx.Assert("C15.get_found_iff_model", ok == mok)
			if mok {
				vx.Assert("C15.get_returns_last_set_value", v == mv)
				vx.Reach("C15.hit")
			}
		case 2:
			k := vx.Choice("k", nkeys)
			vx.Assert("C15.delete_result", c.Delete(k) == m.del(k))
		case 3:
			c.Close()
			m.close()
			vx.Reach("C15.closed")
		}
		vx.Drain()
		if !m.closed {
			vx.Assert("C15.len_matches_model", c.Len() == len(m.ents))
			vx.Assert("C15.len_within_capacity", c.Len() <= capacity)
		}
		// the eviction callbacks delivered so far are exactly the model's, in order, with the value held
		vx.Assert("C15.callback_count", len(got) == len(m.evicted))
		if len(got) == len(m.evicted) {
			ok := true
			for j := range got {
				if got[j].k != m.evicted[j].k {
					ok = false
				}
				ok = vx.And(ok, got[j].v == m.evicted[j].v)
			}
			vx.Assert("C15.callbacks_exactly_the_leaving_entries_with_their_values", ok)
		}
		if len(got) > 0 {
			vx.Reach("C15.evicted")
		}
	}
	vx.Reach("C15.end")
}

// TinyLFUBig: capacities around the admission-window threshold (100); generic invariants only.
func TinyLFUBig() {
	capacity := 99 + vx.Choice("cap", 3)
	callbacks := map[int]int{}
	live := map[int]int64{}
	c := cache.New[int, int64](capacity).WithPolicy(cache.TinyLFU).Synchronous().WithEvictFunc(func(k int, v int64) {
		callbacks[k]++
		vx.Assert("C15.big_callback_value", v == live[k])
		delete(live, k)
	}).Build()
	for k := 0; k < capacity; k++ {
		c.Set(1000+k, int64(k))
		live[1000+k] = int64(k)
	}
	vx.Assert("C15.big_filled", c.Len() == capacity)
	L := vx.Param("L")
	for i := 0; i < L; i++ {
		k := []int{1000, 1000 + capacity - 1, 5000 + i, 5001}[vx.Choice("k", 4)]
		if vx.Choice("op", 2) == 0 {
			v := vx.Int64("v")
			c.Set(k, v)
			live[k] = v
		} else {
			v, ok := c.Get(k)
			_, want := live[k]
			vx.Assert("C15.big_get_found_iff_live", ok == want)
			if ok {
				vx.Assert("C15.big_get_value", v == live[k])
			}
		}
		vx.Assert("C15.big_len_within_capacity", c.Len() <= capacity)
		vx.Assert("C15.big_len_matches_live", c.Len() == len(live))
	}
	c.Close()
	vx.Assert("C15.big_all_evicted_on_close", len(live) == 0)
	for _, n := range callbacks {
		vx.Assert("C15.big_callback_once_per_departure", n >= 1)
	}
	vx.Reach("C15.big_end")
}
