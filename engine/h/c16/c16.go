// Package c16: cached sessions are shared, stay usable while held, are torn down exactly once.
package c16

import (
	"time"

	"verifh/h/env"
	"verifh/vx"

	ae "github.com/godaddy/asherah/go/appencryption"
)

var evictPolicies = []string{"slru", "lru", "lfu"}

func policy(e *env.Env) *ae.CryptoPolicy {
	pol := e.Policy(env.Policies[0], env.CacheDefault)
	ae.WithSessionCache()(pol)
	ae.WithSessionCacheMaxSize(1 + vx.Choice("sessioncap", vx.Param("caps")))(pol)
	ae.WithSessionCacheDuration(10 * time.Second)(pol)
	pol.SessionCacheEvictionPolicy = evictPolicies[vx.Choice("evict", vx.Param("evicts"))]
	return pol
}

func checkAllReleased(e *env.Env, label string) {
	vx.Assert(label+"_none_live", e.Secrets.Live() == 0)
	once := true
	for _, s := range e.Secrets.Secrets {
		if s.CloseCount != 1 {
			once = false
		}
	}
	vx.Assert(label+"_each_exactly_once", once)
	vx.Assert(label+"_no_use_after_close", e.Secrets.UseAfterClose() == 0)
}

// Churn: T goroutines get, use and close sessions over more partitions than the session cache holds.
func Churn() {
	e := env.New()
	f := e.Factory(policy(e))
	parts := []string{"p0", "p1", "p2"}
	T := vx.Param("threads")
	vx.Now()
	if vx.Param("freeze") == 1 {
		vx.ClockFreeze(true)
	}
	done := make(chan int, T)
	for i := 0; i < T; i++ {
		go func(i int) {
			id := parts[vx.Choice("part", vx.Param("parts"))]
			s, err := f.GetSession(id)
			vx.Assert("C16.getsession_ok", err == nil && s != nil)
			r, err := s.Encrypt(env.Ctx, []byte{byte(60 + i)})
			vx.Assert("C16.held_session_encrypts", err == nil)
			vx.Yield()
			if err == nil {
				out, err := s.Decrypt(env.Ctx, *r)
				vx.Assert("C16.held_session_still_works_after_churn", vx.And(err == nil, vx.BytesEq(out, []byte{byte(60 + i)})))
			}
			vx.Assert("C16.close_ok", s.Close() == nil)
			done <- 1
		}(i)
	}
	for i := 0; i < T; i++ {
		<-done
	}
	vx.Drain()
	vx.Assert("C16.no_key_used_after_release", e.Secrets.UseAfterClose() == 0)
	f.Close()
	vx.Drain()
	checkAllReleased(e, "C16.after_factory_close")
	vx.Reach("C16.churn_end")
}

// Sharing: holders of one cached partition share the underlying session; eviction while held does not break it.
func Sharing() {
	e := env.New()
	f := e.Factory(policy(e))
	vx.Now()
	vx.ClockFreeze(true)
	a, err := f.GetSession("p0")
	vx.Assert("C16.getsession_ok", err == nil)
	b, err := f.GetSession("p0")
	vx.Assert("C16.getsession_ok", err == nil)
	vx.Assert("C16.cached_partition_is_shared", a == b)
	ra, err := a.Encrypt(env.Ctx, []byte{1})
	vx.Assert("C16.shared_encrypt_ok", err == nil)
	// other partitions push p0 out of the cache while it is held
	for _, id := range []string{"p1", "p2", "p3"} {
		s, err := f.GetSession(id)
		vx.Assert("C16.getsession_ok", err == nil)
		_, err = s.Encrypt(env.Ctx, []byte{2})
		vx.Assert("C16.other_partition_ok", err == nil)
		s.Close()
		vx.Drain()
	}
	// optionally the cache entry also expires
	if vx.Choice("expire", 2) == 1 {
		vx.ClockFreeze(false)
		t, _ := vx.Now()
		vx.ClockMin(t + 11)
		vx.Now()
		vx.ClockFreeze(true)
		s, _ := f.GetSession("p1")
		s.Close()
		vx.Drain()
	}
	out, err := b.Decrypt(env.Ctx, *ra)
	vx.Assert("C16.held_session_survives_eviction", vx.And(err == nil, vx.BytesEq(out, []byte{1})))
	live := e.Secrets.Live()
	a.Close()
	vx.Drain()
	out, err = b.Decrypt(env.Ctx, *ra)
	vx.Assert("C16.still_usable_until_last_holder_closes", vx.And(err == nil, vx.BytesEq(out, []byte{1})))
	b.Close()
	vx.Drain()
	_ = live
	c, _ := f.GetSession("p0")
	vx.Drain()
	if c != a {
		// p0 had left the cache (evicted, or expired just now): with its last holder gone the IK it cached
		// (the second secret this process created: SK, IK, DRK) must have been released, exactly once
		ik := e.Secrets.Secrets[1]
		vx.Assert("C16.released_after_last_holder_closed_and_evicted", ik.Closed && ik.CloseCount == 1)
		vx.Reach("C16.evicted_while_held")
	}
	c.Close()
	f.Close()
	vx.Drain()
	checkAllReleased(e, "C16.after_factory_close")
	vx.Reach("C16.sharing_end")
}

// HitVersusEviction: partition p0 sits in the session cache with no holder; one goroutine asks for it again (a cache
// hit) while another asks for a different partition (a miss that evicts p0). Whatever the interleaving of the two
// GetSession / Close calls - including the eviction and the teardown goroutine running between the lookup and the
// hand-out - the session handed out for p0 works until its holder closes it, and everything is released exactly
// once in the end. (Pre-emption is explored inside GetSession and Close; the use of the held session in between
// runs without pre-emption, which is all this window needs.)
func HitVersusEviction() {
	e := env.New()
	f := e.Factory(policy(e))
	vx.Now()
	vx.ClockFreeze(true)
	warm, err := f.GetSession("p0")
	vx.Assert("C16.getsession_ok", err == nil && warm != nil)
	_, err = warm.Encrypt(env.Ctx, []byte{1})
	vx.Assert("C16.warm_encrypt_ok", err == nil)
	warm.Close()
	vx.Drain()
	// the window of interest is the session cache's lookup-and-hand-out: explore pre-emption there (and in the
	// teardown of an evicted session), not inside the key caches and secrets underneath
	vx.PreemptWithin("cacheWrapper")
	done := make(chan int, 2)
	worker := func(part string, b byte, atomic bool) {
		// the evicting caller runs as one step (it may start at any point of the other caller's GetSession / Close)
		if atomic {
			vx.NoPreempt(true)
		}
		s, err := f.GetSession(part)
		if atomic {
			vx.NoPreempt(false)
		}
		vx.NoPreempt(true)
		vx.Assert("C16.getsession_ok", err == nil && s != nil)
		r, err := s.Encrypt(env.Ctx, []byte{b})
		vx.Assert("C16.held_session_encrypts", err == nil)
		if err == nil {
			out, err := s.Decrypt(env.Ctx, *r)
			vx.Assert("C16.held_session_still_works_after_churn", vx.And(err == nil, vx.BytesEq(out, []byte{b})))
		}
		vx.NoPreempt(false)
		vx.Assert("C16.close_ok", s.Close() == nil)
		done <- 1
	}
	go worker("p0", 61, false)
	go worker("p1", 62, true)
	<-done
	<-done
	vx.PreemptWithin("")
	vx.Drain()
	vx.Assert("C16.no_key_used_after_release", e.Secrets.UseAfterClose() == 0)
	f.Close()
	vx.Drain()
	checkAllReleased(e, "C16.after_factory_close")
	vx.Reach("C16.hit_vs_eviction_end")
}
