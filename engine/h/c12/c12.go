// Package c12: secure memory under syscall failures (fault flag on every shadow-memcall call and on the random source).
package c12

import (
	"github.com/godaddy/asherah/go/securememory"
	"github.com/godaddy/asherah/go/securememory/memguard"
	"github.com/godaddy/asherah/go/securememory/protectedmemory"

	"verifh/vx"
)

const (
	mapped = 1
	locked = 2
	pNone  = 1 << 2
)

func factory(impl int) securememory.SecretFactory {
	if impl == 0 {
		vx.Tag("impl", "protectedmemory")
		return new(protectedmemory.SecretFactory)
	}
	vx.Tag("impl", "memguard")
	return new(memguard.SecretFactory)
}

func budget(n int) {
	vx.FaultCap(n)
	vx.FaultBudget("memcall", n)
	vx.FaultBudget("rand", n)
	vx.FaultBudget("memguard", n)
}

// Faults: create (New or CreateRandom) under faults, access under faults, close under faults, retry.
func Faults() {
	impl := vx.Choice("impl", 2)
	f := factory(impl)
	B := vx.Param("faults")
	inuse0 := vx.Counter("secret.inuse")
	var s securememory.Secret
	var err error
	var keep []byte
	budget(B)
	if vx.Choice("ctor", 2) == 0 {
		orig := vx.Bytes("secret", 2)
		keep = append([]byte(nil), orig...)
		s, err = f.New(orig)
	} else {
		s, err = f.CreateRandom(2)
	}
	budget(0)
	if err != nil {
		// a region can only stay behind when the release call itself was the one that failed
		freeFailed := vx.Faulted("memcall", "free") > 0
		vx.Assert("C12.failed_creation_leaves_nothing_mapped", vx.MemCount(0) == 0 || freeFailed)
		vx.Assert("C12.failed_creation_leaves_nothing_locked", vx.MemCount(1) == 0 || freeFailed)
		vx.Assert("C12.failed_creation_leaves_nothing_readable", vx.MemCount(2) == 0 || freeFailed)
		if impl == 1 {
			// known finding: the memguard-backed factory releases a frozen buffer through memcall.Clean without wiping it
			vx.KnownClass("C12.zeroed_before_unlock", "C12-memguard-newFromBuffer-clean-without-wipe", vx.Faulted("memcall", "Protect") > 0)
		}
		vx.Assert("C12.zeroed_before_unlock", vx.MemWipedBeforeRelease())
		vx.Assert("C12.inuse_balanced_after_failed_creation", vx.Counter("secret.inuse") == inuse0)
		vx.Reach("C12.creation_failed")
		vx.Stop()
	}
	vx.Assert("C12.no_silently_degraded_secret", vx.MemStateOf(0) == mapped|locked|pNone)
	if keep == nil {
		keep = vx.MemPeekOf(0)
	}
	// access under faults
	budget(B)
	called := false
	err = s.WithBytes(func(b []byte) error {
		called = true
		vx.Assert("C12.callback_sees_original", vx.BytesEq(b, keep))
		return nil
	})
	budget(0)
	if err != nil && !called {
		// failed attempt to open for reading: inaccessible, reader count unchanged, later reads still work
		vx.Assert("C12.failed_access_leaves_noaccess", vx.MemStateOf(0) == mapped|locked|pNone)
		vx.Reach("C12.access_failed")
	}
	err2 := s.WithBytes(func(b []byte) error {
		vx.Assert("C12.later_read_sees_original", vx.BytesEq(b, keep))
		return nil
	})
	if err == nil || !called {
		vx.Assert("C12.later_read_works", err2 == nil)
		vx.Assert("C12.noaccess_when_idle", vx.MemStateOf(0) == mapped|locked|pNone)
	}
	// close under faults, then retry without
	budget(B)
	err = s.Close()
	budget(0)
	if err != nil {
		vx.Reach("C12.close_failed")
		// between the failed Close and its retry the secret must not come back degraded: a read either fails or
		// still sees the original bytes (the pages may already have been wiped)
		s.WithBytes(func(b []byte) error {
			vx.Assert("C12.read_after_failed_close_is_an_error_or_the_original", vx.BytesEq(b, keep))
			return nil
		})
		err = s.Close()
		vx.Assert("C12.failed_close_can_be_retried", err == nil)
	}
	if err2 == nil {
		vx.Assert("C12.gone_after_close", vx.MemStateOf(0)&mapped == 0)
		vx.Assert("C12.inuse_balanced", vx.Counter("secret.inuse") == inuse0)
	}
	vx.Assert("C12.zeroed_before_unlock", vx.MemWipedBeforeRelease())
	vx.Reach("C12.end")
}

// ConcurrentFaults: a reader is inside its callback while a Close is pending, and one memory primitive fails
// (for instance the re-protection when the last reader leaves). Whatever fails, nobody is left waiting forever: the
// reader's call and the pending Close both return, a Close that reported success has really released the pages, a
// failed one can be retried, and secret bytes are zero before their pages are unlocked or freed.
func ConcurrentFaults() {
	impl := vx.Choice("impl", 2)
	f := factory(impl)
	orig := vx.Bytes("secret", 2)
	keep := append([]byte(nil), orig...)
	s, err := f.New(orig)
	vx.Assert("C12.cf_new_ok", err == nil)
	budget(vx.Param("faults"))
	done := make(chan int, 2)
	var closeErr error
	go func() {
		s.WithBytes(func(b []byte) error {
			vx.Assert("C12.cf_reader_sees_original", vx.BytesEq(b, keep))
			vx.Yield()
			return nil
		})
		done <- 1
	}()
	go func() {
		closeErr = s.Close()
		done <- 1
	}()
	<-done
	<-done // a deadlock here (a Close never woken) is reported by the scheduler model
	budget(0)
	if closeErr != nil {
		vx.Reach("C12.cf_close_failed")
		vx.Assert("C12.cf_failed_close_can_be_retried", s.Close() == nil)
	}
	freeFailed := vx.Faulted("memcall", "free") > 0
	vx.Assert("C12.cf_gone_after_close", vx.MemStateOf(0)&mapped == 0 || freeFailed)
	vx.Assert("C12.cf_zeroed_before_unlock", vx.MemWipedBeforeRelease())
	vx.Reach("C12.cf_end")
}
