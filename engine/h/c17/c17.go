// Package c17: AWS KMS plugins (SDK v1 and v2): any surviving region can unwrap; preferred region first.
package c17

import (
	"context"
	"crypto/rand"
	"errors"
	"fmt"

	awsv2 "github.com/aws/aws-sdk-go-v2/aws"
	kmsv2 "github.com/aws/aws-sdk-go-v2/service/kms"
	awsv1 "github.com/aws/aws-sdk-go/aws"
	"github.com/aws/aws-sdk-go/aws/request"
	kmsv1 "github.com/aws/aws-sdk-go/service/kms"

	ae "github.com/godaddy/asherah/go/appencryption"
	"github.com/godaddy/asherah/go/appencryption/pkg/crypto/aead"
	v1 "github.com/godaddy/asherah/go/appencryption/plugins/aws-v1/kms"
	v2 "github.com/godaddy/asherah/go/appencryption/plugins/aws-v2/kms"

	"verifh/vx"
)

var regions = []string{"us-west-2", "us-east-1", "eu-west-1", "ap-south-1"}

func arn(r string) string { return "arn:aws:kms:" + r + ":key" }

// altNames: the plugin being built names each region's key by its alias ARN instead of its key ARN (the same key; the
// "arn" recorded in an envelope entry is only the name its writer was configured with).
var altNames bool

// keyARN: what the service reports as KeyId in its responses - the key's ARN, however the request named the key.
func keyARN(r string) *string { a := arn(r); return &a }

func arnFor(r string) string {
	if altNames {
		return "arn:aws:kms:" + r + ":alias/key"
	}
	return arn(r)
}

// world is the fake cloud: one KMS per region, blobs are region-bound.
type world struct {
	failGen, failEnc, failDec map[string]bool
	errKind                   int               // what a failing regional call returns: 0 plain error, 1 wraps context.DeadlineExceeded, 2 wraps context.Canceled
	incomplete                map[string]bool   // GenerateDataKey answers with a data key but an empty ciphertext blob
	shortKey                  bool              // GenerateDataKey hands back a key of the wrong size (the AEAD step fails)
	wrongDec                  map[string]bool   // the region answers Decrypt with a data key that is not the one it wrapped
	blobs                     map[string][]byte // blob id -> plaintext copy
	blobRegion                map[string]string
	nblob                     int
	log                       []string
	handedOut                 [][]byte // plaintext slices returned to the plugin (must be wiped by it)
	received                  [][]byte // plaintext slices the plugin handed to a regional Encrypt (its own copies included)
}

func newWorld(n int, wrapFaults, unwrapFaults bool) *world {
	w := &world{failGen: map[string]bool{}, failEnc: map[string]bool{}, failDec: map[string]bool{}, wrongDec: map[string]bool{}, incomplete: map[string]bool{}, blobs: map[string][]byte{}, blobRegion: map[string]string{}}
	if k := vx.Param("errkinds"); k > 1 {
		// an unreachable region surfaces through the SDK's HTTP client as an error that wraps
		// context.DeadlineExceeded / context.Canceled although the caller's own context is live: it is still just
		// a failed region
		w.errKind = vx.Choice("errkind", k)
	}
	for _, r := range regions[:n] {
		if wrapFaults {
			w.failGen[r] = vx.Bool("failgen")
			w.failEnc[r] = vx.Bool("failenc")
			if vx.Param("incomplete") == 1 && !w.failGen[r] {
				w.incomplete[r] = vx.Bool("incomplete")
			}
		}
		if unwrapFaults {
			w.failDec[r] = vx.Bool("faildec")
			if vx.Param("wrongdec") == 1 && !w.failDec[r] {
				// a region whose KMS hands back a key that does not open the system key (diverged key material,
				// stale or substituted envelope entry): the plugin must move on to the next region and still
				// leave no plaintext behind
				w.wrongDec[r] = vx.Bool("wrongdec")
			}
		}
	}
	return w
}

func (w *world) unavailable() error {
	switch w.errKind {
	case 1:
		return fmt.Errorf("kms unreachable: %w", context.DeadlineExceeded)
	case 2:
		return fmt.Errorf("kms unreachable: %w", context.Canceled)
	}
	return errors.New("kms unavailable")
}

func (w *world) wrap(region string, pt []byte) []byte {
	w.nblob++
	id := "blob:" + region + ":" + string(rune('a'+w.nblob))
	w.blobs[id] = append([]byte(nil), pt...)
	w.blobRegion[id] = region
	return []byte(id)
}

func (w *world) generate(region string) ([]byte, []byte, error) {
	w.log = append(w.log, "gen:"+region)
	if w.failGen[region] {
		return nil, nil, w.unavailable()
	}
	n := 32
	if w.shortKey {
		n = 31 // a data key the AEAD rejects: wrapping fails after the plaintext exists
	}
	pt := make([]byte, n)
	rand.Read(pt)
	w.handedOut = append(w.handedOut, pt)
	if w.incomplete[region] {
		return pt, []byte{}, nil
	}
	blob := w.wrap(region, pt)
	return pt, blob, nil
}

func (w *world) encrypt(region string, pt []byte) ([]byte, error) {
	w.log = append(w.log, "enc:"+region)
	w.received = append(w.received, pt)
	if w.failEnc[region] {
		return nil, w.unavailable()
	}
	return w.wrap(region, pt), nil
}

func (w *world) decrypt(region string, blob []byte) ([]byte, error) {
	w.log = append(w.log, "dec:"+region)
	if w.failDec[region] {
		return nil, w.unavailable()
	}
	pt, ok := w.blobs[string(blob)]
	if !ok || w.blobRegion[string(blob)] != region {
		return nil, errors.New("invalid ciphertext")
	}
	out := append([]byte(nil), pt...)
	if w.wrongDec[region] {
		rand.Read(out)
	}
	w.handedOut = append(w.handedOut, out)
	return out, nil
}

// ---- SDK v1 fake ----

type fakeV1 struct {
	w      *world
	region string
}

func (f *fakeV1) EncryptWithContext(_ awsv1.Context, in *kmsv1.EncryptInput, _ ...request.Option) (*kmsv1.EncryptOutput, error) {
	b, err := f.w.encrypt(f.region, in.Plaintext)
	if err != nil {
		return nil, err
	}
	return &kmsv1.EncryptOutput{CiphertextBlob: b, KeyId: keyARN(f.region)}, nil
}

func (f *fakeV1) GenerateDataKeyWithContext(_ awsv1.Context, in *kmsv1.GenerateDataKeyInput, _ ...request.Option) (*kmsv1.GenerateDataKeyOutput, error) {
	pt, b, err := f.w.generate(f.region)
	if err != nil {
		return nil, err
	}
	return &kmsv1.GenerateDataKeyOutput{Plaintext: pt, CiphertextBlob: b, KeyId: keyARN(f.region)}, nil
}

func (f *fakeV1) DecryptWithContext(_ awsv1.Context, in *kmsv1.DecryptInput, _ ...request.Option) (*kmsv1.DecryptOutput, error) {
	pt, err := f.w.decrypt(f.region, in.CiphertextBlob)
	if err != nil {
		return nil, err
	}
	return &kmsv1.DecryptOutput{Plaintext: pt}, nil
}

// ---- SDK v2 fake ----

type fakeV2 struct {
	w      *world
	region string
}

func (f *fakeV2) Encrypt(_ context.Context, in *kmsv2.EncryptInput, _ ...func(*kmsv2.Options)) (*kmsv2.EncryptOutput, error) {
	b, err := f.w.encrypt(f.region, in.Plaintext)
	if err != nil {
		return nil, err
	}
	return &kmsv2.EncryptOutput{CiphertextBlob: b, KeyId: keyARN(f.region)}, nil
}

func (f *fakeV2) GenerateDataKey(_ context.Context, in *kmsv2.GenerateDataKeyInput, _ ...func(*kmsv2.Options)) (*kmsv2.GenerateDataKeyOutput, error) {
	pt, b, err := f.w.generate(f.region)
	if err != nil {
		return nil, err
	}
	return &kmsv2.GenerateDataKeyOutput{Plaintext: pt, CiphertextBlob: b, KeyId: keyARN(f.region)}, nil
}

func (f *fakeV2) Decrypt(_ context.Context, in *kmsv2.DecryptInput, _ ...func(*kmsv2.Options)) (*kmsv2.DecryptOutput, error) {
	pt, err := f.w.decrypt(f.region, in.CiphertextBlob)
	if err != nil {
		return nil, err
	}
	return &kmsv2.DecryptOutput{Plaintext: pt}, nil
}

// build returns the plugin under test and the client order it ended up with (preferred first, rest in map order).
func build(version int, w *world, n int, preferred string) (ae.KeyManagementService, []string) {
	crypto := aead.NewAES256GCM()
	if version == 2 {
		arnMap := map[string]string{}
		for _, r := range regions[:n] {
			arnMap[r] = arnFor(r)
		}
		vx.MapOrderAll(true)
		// the caller's base config may already name a region (AWS_REGION, shared config): every regional client
		// must still talk to its own region
		base := awsv2.Config{}
		if vx.Choice("base_config_has_region", 2) == 1 {
			base.Region = regions[0]
		}
		k, err := v2.NewBuilder(crypto, arnMap).WithPreferredRegion(preferred).WithAWSConfig(base).
			WithKMSFactory(func(cfg awsv2.Config, _ ...func(*kmsv2.Options)) v2.AWSClient {
				return &fakeV2{w, cfg.Region}
			}).Build()
		vx.MapOrderAll(false)
		vx.Assert("C17.build_ok", err == nil)
		if err != nil {
			vx.Stop()
		}
		vx.Assert("C17.preferred_region_is_first_client", k.PreferredRegion() == preferred)
		return k, nil
	}
	// v1: the exported struct; client order = preferred first (what NewAWS/sortClients produces), rest in any order
	rest := []string{}
	for _, r := range regions[:n] {
		if r != preferred {
			rest = append(rest, r)
		}
	}
	// every permutation of the non-preferred regions
	var order []string
	for len(rest) > 0 {
		i := vx.Choice("order", len(rest))
		order = append(order, rest[i])
		rest = append(append([]string{}, rest[:i]...), rest[i+1:]...)
	}
	order = append([]string{preferred}, order...)
	k := &v1.AWSKMS{Crypto: crypto}
	for _, r := range order {
		k.Clients = append(k.Clients, v1.AWSKMSClient{KMS: &fakeV1{w, r}, Region: r, ARN: arnFor(r)})
	}
	return k, order
}

func firstOf(log []string, op string) string {
	for _, l := range log {
		if len(l) > 4 && l[:4] == op+":" {
			return l[4:]
		}
	}
	return ""
}

// WrapUnwrap: wrap with one plugin under arbitrary regional failures, unwrap with the same or the other plugin
// under arbitrary regional failures.
func WrapUnwrap() {
	// minregions..maxregions regions (a spec entry may pin the count, e.g. exactly three)
	lo := vx.Param("minregions")
	if lo < 1 {
		lo = 1
	}
	n := lo + vx.Choice("regions", vx.Param("maxregions")-lo+1)
	preferred := regions[vx.Choice("preferred", n)]
	wv := 1 + vx.Choice("wrap_version", 2)
	uv := wv
	if vx.Param("samev") != 1 {
		// (samev=1: the unwrapping plugin is of the same SDK generation as the wrapping one - used by the three-region
		// entry to halve its cost; the cross-generation exchange is covered with two regions)
		uv = 1 + vx.Choice("unwrap_version", 2)
	}
	// unwrapfaults=0: every region answers at unwrap time (used by the three-region entry to bound its cost)
	w := newWorld(n, true, vx.Param("unwrapfaults") != 0)
	vx.Now()
	vx.ClockFreeze(true)
	// altwrap=1: the wrapping side may be configured with alias ARNs as well (the service still reports key ARNs)
	if vx.Param("altwrap") == 1 && vx.Choice("writer_names_keys_by_alias", 2) == 1 {
		altNames = true
		vx.Tag("writer_arns", "alias")
	}
	wrapper, _ := build(wv, w, n, preferred)
	altNames = false
	key := vx.Bytes("systemkey", 32)
	keep := append([]byte(nil), key...)
	if vx.Param("shortkey") == 1 && n == 1 {
		w.shortKey = vx.Bool("gen_returns_short_key")
	}
	env, err := wrapper.EncryptKey(context.Background(), key)
	if w.shortKey {
		// the failure happens after the data key plaintext exists: an error, and nothing left behind
		vx.Assert("C17.wrap_with_unusable_data_key_is_an_error", err != nil || w.failGen[regions[0]])
		for _, b := range w.handedOut {
			vx.Assert("C17.data_key_plaintext_wiped_after_failed_wrap", vx.AllZero(b))
		}
		vx.Reach("C17.short_key")
		vx.Stop()
	}
	anyGen := false
	for _, r := range regions[:n] {
		if !w.failGen[r] {
			anyGen = true
		}
	}
	vx.Assert("C17.wrap_succeeds_iff_some_region_generates", (err == nil) == anyGen)
	vx.Assert("C17.first_generate_attempt_is_preferred_region", firstOf(w.log, "gen") == preferred)
	for _, b := range w.handedOut {
		vx.Assert("C17.data_key_plaintext_wiped_after_wrap", vx.AllZero(b))
	}
	for _, b := range w.received {
		// whatever buffer carried the data key to a regional Encrypt - the KMS response itself or a copy of it -
		// is wiped too, whether that region succeeded or not
		vx.Assert("C10.data_key_copies_handed_to_regions_wiped_after_wrap", vx.AllZero(b))
	}
	if err != nil {
		vx.Reach("C17.wrap_failed")
		vx.Stop()
	}
	// which regions hold a usable entry: the generating one and every one whose Encrypt succeeded
	gen := ""
	for _, l := range w.log {
		if l[:4] == "gen:" && !w.failGen[l[4:]] {
			gen = l[4:]
			break
		}
	}
	has := map[string]bool{gen: true}
	for _, r := range regions[:n] {
		if r != gen && !w.failEnc[r] {
			has[r] = true
		}
	}
	shape := vx.JSONShape(env)
	want := `{"encryptedKey":#base64,"kmsKeks":[`
	for i := 0; i < len(has); i++ {
		if i > 0 {
			want += ","
		}
		want += `{"region":#string,"arn":#string,"encryptedKek":#base64}`
	}
	want += `]}`
	if !w.incomplete[gen] {
		// (an entry carrying the empty blob of an incomplete GenerateDataKey response renders as an empty JSON string,
		// which the shape function cannot tell from a plain string: the entry count is then checked through the
		// unwrap obligations only)
		vx.Assert("C17.envelope_has_one_entry_per_successful_region", shape == want)
	}

	// unwrap, possibly with the other plugin, under its own failures
	w.log = nil
	w.handedOut = nil
	// the unwrapping side is another process (a freshly built plugin) or - same plugin version - the very instance
	// that wrapped: a plugin object serves many calls, an earlier call must not change how later ones behave
	var unwrapper ae.KeyManagementService
	if wv == uv && vx.Choice("same_instance", 2) == 1 {
		unwrapper = wrapper
		vx.Tag("unwrap_by", "same-instance")
	} else {
		if vx.Param("altarn") == 1 && vx.Choice("reader_names_keys_differently", 2) == 1 {
			altNames = true
			vx.Tag("reader_arns", "alias")
		}
		unwrapper, _ = build(uv, w, n, preferred)
		altNames = false
	}
	out, err := unwrapper.DecryptKey(context.Background(), env)
	canUnwrap := false
	for _, r := range regions[:n] {
		if has[r] && !w.failDec[r] && !w.wrongDec[r] && !(r == gen && w.incomplete[r]) {
			canUnwrap = true
		}
	}
	vx.Assert("C17.unwrap_succeeds_iff_a_region_with_an_entry_can_decrypt", (err == nil) == canUnwrap)
	if err == nil {
		vx.Assert("C17.unwrap_returns_identical_key", vx.BytesEq(out, keep))
		vx.Reach("C17.unwrapped")
	}
	if has[preferred] {
		vx.Assert("C17.first_decrypt_attempt_is_preferred_region", firstOf(w.log, "dec") == preferred)
	}
	for _, b := range w.handedOut {
		vx.Assert("C10.kms_plaintext_wiped_after_unwrap", vx.AllZero(b))
	}
	vx.Reach("C17.end")
}
