// Package c08: a key in use is never destroyed underneath its user, under any schedule.
package c08

import (
	"time"

	ae "github.com/godaddy/asherah/go/appencryption"

	"verifh/h/env"
	"verifh/vx"
)

func secs(d time.Duration) int64 { return int64(d / time.Second) }

// Shared: W workers against one factory whose IK cache is shared and bounded (capacity 1), so that one
// worker's load evicts the key another worker is about to use.
func Shared() {
	e := env.New()
	polc := env.Policies[1]
	var pol *ae.CryptoPolicy
	switch vx.Choice("cachecfg", vx.Param("cachecfgs")) {
	case 0:
		pol = e.Policy(polc, env.CacheSharedLRU1)
		vx.Tag("cache", "shared-ik-lru1")
	case 1:
		pol = e.Policy(polc, env.CacheSharedLRU1)
		pol.IntermediateKeyCacheEvictionPolicy = "slru"
		vx.Tag("cache", "shared-ik-slru1")
	case 2:
		pol = e.Policy(polc, env.CacheSharedLRU1)
		pol.IntermediateKeyCacheEvictionPolicy = "lfu"
		pol.SystemKeyCacheMaxSize = 1
		pol.SystemKeyCacheEvictionPolicy = "lru"
		vx.Tag("cache", "shared-ik-lfu1+sk-lru1")
	default:
		pol = e.Policy(polc, env.CacheLRU1)
		vx.Tag("cache", "session-ik-lru1")
	}
	f := e.Factory(pol)
	W := vx.Param("workers")
	parts := []string{"p0", "p1", "p2"}
	t0, _ := vx.Now()
	vx.ClockFreeze(true)
	recs := make([]*ae.DataRowRecord, W)
	for i := 0; i < W; i++ {
		s, _ := f.GetSession(parts[i])
		r, err := s.Encrypt(env.Ctx, []byte{byte(40 + i)})
		vx.Assert("C08.setup_ok", err == nil)
		recs[i] = r
		s.Close()
	}
	if vx.Choice("stale", 2) == 1 {
		// the cached entries are older than the revoke-check interval: concurrent refresh / reload paths
		vx.ClockFreeze(false)
		vx.ClockMin(t0 + secs(polc.Revoke) + 1)
		vx.ClockMax(t0 + secs(polc.Revoke) + 5)
		vx.Now()
		vx.ClockFreeze(true)
		vx.Tag("entries", "stale")
	}
	done := make(chan int, W)
	for i := 0; i < W; i++ {
		go func(i int) {
			s, err := f.GetSession(parts[i])
			vx.Assert("C08.getsession_ok", err == nil)
			switch vx.Choice("op", 2) {
			case 0:
				out, err := s.Decrypt(env.Ctx, *recs[i])
				vx.Assert("C08.decrypt_succeeds_despite_concurrent_eviction", err == nil)
				if err == nil {
					vx.Assert("C08.decrypt_correct", vx.BytesEq(out, []byte{byte(40 + i)}))
				}
			case 1:
				r, err := s.Encrypt(env.Ctx, []byte{byte(50 + i)})
				vx.Assert("C08.encrypt_succeeds_despite_concurrent_eviction", err == nil)
				if err == nil {
					out, err := s.Decrypt(env.Ctx, *r)
					vx.Assert("C08.own_roundtrip", vx.And(err == nil, vx.BytesEq(out, []byte{byte(50 + i)})))
				}
			}
			s.Close()
			done <- 1
		}(i)
	}
	for i := 0; i < W; i++ {
		<-done
	}
	vx.Assert("C08.no_key_used_after_destroy", e.Secrets.UseAfterClose() == 0)
	f.Close()
	vx.Assert("C08.no_key_used_after_destroy", e.Secrets.UseAfterClose() == 0)
	// the accounting side of the same schedules (C09): whatever was evicted, reloaded or refreshed while somebody held
	// it, once every session and the factory are closed every secret has been released exactly once
	if vx.CalledFrom("getOrLoadSystemKey", "intermediateKeyFromEKR") == 0 { // (listed known finding C09-sk-ref-...)
		vx.Assert("C09.all_released_after_concurrent_evictions", e.Secrets.Live() == 0)
		once := true
		for _, sc := range e.Secrets.Secrets {
			if sc.CloseCount != 1 {
				once = false
			}
		}
		vx.Assert("C09.each_secret_released_exactly_once_after_concurrent_evictions", once)
	}
	vx.Reach("C08.end")
}
