// Package c06: partition isolation at the session level (public API), concrete adversarial ids.
package c06

import (
	"verifh/h/env"
	"verifh/vx"
)

type pair struct{ p, q string }

// ids chosen from the solver's witnesses for the id-level harness plus fixed adversarial shapes
var pairs = []pair{
	{"a", "b"},
	{"a", "a_svc_prod"},
	{"a_svc_prod", "a"},
	{"a", "a_"},
	{"a_", "a"},
	{"_IK_a", "a"},
	{"a", "a_svc_prod_us-west-2"},
	{"svc", "prod"},
	// ids that differ only by whitespace or letter case are different partitions (no normalisation on the way in)
	{"a ", "a"},
	{"a", " a"},
	{"a\n", "a"},
	{"A", "a"},
	// ids that contain formatting directives are ordinary, distinct ids (an id must never be used as a format)
	{"acme%2Forders", "acme%3Forders"},
	{"t%s", "t%v"},
	// very long ids that differ only at the end (hierarchical tenant paths): no length limit may fold them together
	{longID("x"), longID("y")},
}

func longID(tail string) string {
	b := make([]byte, 300)
	for i := range b {
		b[i] = 'a' + byte(i%26)
	}
	return string(b) + tail
}

// Sessions: a record produced for Q handed to a session for P (same factory, store, caches).
func Sessions() {
	e := env.New()
	suffixed := vx.Choice("suffixed", 2) == 1
	if suffixed {
		e.Store.Suffix = "us-west-2"
		vx.Tag("session", "suffixed")
	} else {
		vx.Tag("session", "default")
	}
	cache := vx.Choice("cache", vx.Param("caches"))
	f := e.Factory(e.Policy(env.Policies[0], cache))
	_, err := f.GetSession("")
	vx.Assert("C06.empty_partition_refused", err != nil)
	pr := pairs[vx.Choice("pair", len(pairs))]
	vx.Now()
	vx.ClockFreeze(true)
	sq, err := f.GetSession(pr.q)
	vx.Assert("C06.getsession", err == nil)
	payload := vx.Bytes("payload", 2)
	keep := append([]byte(nil), payload...)
	rec, err := sq.Encrypt(env.Ctx, payload)
	vx.Assert("C06.encrypt_ok", err == nil)
	if err != nil {
		vx.Stop()
	}
	// own session decrypts
	out, err := sq.Decrypt(env.Ctx, *rec)
	vx.Assert("C06.own_roundtrip", vx.And(err == nil, vx.BytesEq(out, keep)))
	sp, _ := f.GetSession(pr.p)
	// warm P's own keys too in half of the runs
	if vx.Choice("warm_p", 2) == 1 {
		sp.Encrypt(env.Ctx, []byte{1})
	}
	out, err = sp.Decrypt(env.Ctx, *rec)
	if suffixed {
		// known finding (same root cause as C06-suffixed-prefix): Q's id extends P's un-suffixed id
		def := env.IKID(pr.p)
		vx.KnownClass("C06.foreign_record_rejected", "C06-suffixed-prefix", len(rec.Key.ParentKeyMeta.ID) >= len(def) && rec.Key.ParentKeyMeta.ID[:len(def)] == def)
	}
	vx.Assert("C06.foreign_record_rejected", err != nil)
	vx.Assert("C06.no_plaintext_on_error", vx.Implies(err != nil, len(out) == 0))
	vx.Reach("C06.sessions_end")
}
