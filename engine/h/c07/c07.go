// Package c07: decrypt yields the original plaintext or an error: never other bytes, no crash.
package c07

import (
	ae "github.com/godaddy/asherah/go/appencryption"

	"verifh/h/env"
	"verifh/vx"
)

type world struct {
	e      *env.Env
	f      *ae.SessionFactory
	r1, r2 *ae.DataRowRecord
	p1, p2 []byte
	other  *ae.DataRowRecord // genuine record of another partition
	pol    *ae.CryptoPolicy
}

func setup() *world {
	w := &world{e: env.New()}
	if vx.Param("suffixed") == 1 {
		// a region-suffixing metastore (DynamoDB global tables): key ids carry the region, the id check on the way
		// in accepts the suffixed, the unsuffixed and other regions' forms
		w.e.Store.Suffix = "us-west-2"
		vx.Tag("store", "suffixed")
	}
	cache := vx.Choice("cache", vx.Param("caches"))
	w.pol = w.e.Policy(env.Policies[0], cache)
	f0 := w.e.Factory(w.pol)
	vx.Now()
	vx.ClockFreeze(true)
	s, _ := f0.GetSession("p0")
	w.p1 = vx.Bytes("p1", 1)
	w.p2 = vx.Bytes("p2", 1)
	k1, k2 := append([]byte(nil), w.p1...), append([]byte(nil), w.p2...)
	var err error
	w.r1, err = s.Encrypt(env.Ctx, w.p1)
	vx.Assert("C07.setup", err == nil)
	w.r2, err = s.Encrypt(env.Ctx, w.p2)
	vx.Assert("C07.setup", err == nil)
	w.p1, w.p2 = k1, k2
	so, _ := f0.GetSession("p1")
	w.other, _ = so.Encrypt(env.Ctx, []byte{5})
	s.Close()
	so.Close()
	f0.Close()
	// the decrypting process: either cold caches or warmed by one genuine decrypt
	w.f = w.e.Factory(w.pol)
	return w
}

// the oracle: error, or exactly the payload that was encrypted under the Data this record carries
func (w *world) oracle(label string, d ae.DataRowRecord, s *ae.Session) {
	out, err := s.Decrypt(env.Ctx, d)
	// success is only allowed with exactly the payload that was encrypted under the Data this record carries
	okR1 := vx.And(vx.BytesEq(d.Data, w.r1.Data), vx.BytesEq(out, w.p1))
	okR2 := vx.And(vx.BytesEq(d.Data, w.r2.Data), vx.BytesEq(out, w.p2))
	vx.Assert(label, vx.Or(err != nil, vx.Or(okR1, okR2)))
	if err == nil {
		vx.Reach("C07.some_success")
	} else {
		vx.Reach("C07.some_error")
	}
}

// Records: arbitrary / mutated data row records against a genuine store.
func Records() {
	w := setup()
	s, _ := w.f.GetSession("p0")
	if vx.Choice("warm", 2) == 1 {
		out, err := s.Decrypt(env.Ctx, *w.r1)
		vx.Assert("C07.genuine_roundtrip", vx.And(err == nil, vx.BytesEq(out, w.p1)))
	}
	d := *env.CloneDRR(w.r1)
	switch vx.Choice("mutation", 9) {
	case 0: // arbitrary Data of every length up to genuine+2 (covers all bit flips, truncations, extensions)
		d.Data = vx.BytesUpTo("data", len(w.r1.Data)+2)
	case 1: // arbitrary encrypted key
		d.Key.EncryptedKey = vx.BytesUpTo("ekey", len(w.r1.Key.EncryptedKey)+2)
	case 2: // splice: data of r1 with key of r2 and vice versa
		if vx.Choice("splice", 2) == 0 {
			d.Key = env.CloneDRR(w.r2).Key
		} else {
			d.Data = append([]byte(nil), w.r2.Data...)
		}
	case 3: // structural
		switch vx.Choice("structural", 4) {
		case 0:
			d.Key = nil
		case 1:
			d.Key.ParentKeyMeta = nil
		case 2:
			d.Key.EncryptedKey = nil
		case 3:
			d.Data = nil
		}
	case 4: // parent meta pointing elsewhere
		switch vx.Choice("parent", 5) {
		case 4:
			// every proper prefix of the genuine id (a truncated record)
			id := d.Key.ParentKeyMeta.ID
			d.Key.ParentKeyMeta.ID = id[:vx.Choice("truncated_to", len(id))]
		case 0:
			d.Key.ParentKeyMeta.ID = env.IKID("p1")
			d.Key.ParentKeyMeta.Created = w.other.Key.ParentKeyMeta.Created
		case 1:
			d.Key.ParentKeyMeta.ID = env.SKID()
		case 2:
			d.Key.ParentKeyMeta.ID = ""
		case 3:
			d.Key.ParentKeyMeta.ID = vx.String("pid", 24)
		}
	case 5: // arbitrary parent Created (missing row, other row)
		d.Key.ParentKeyMeta.Created = vx.Timestamp("pcreated")
	case 6: // arbitrary record Created / Revoked flag (not authenticated, must not matter)
		d.Key.Created = vx.Timestamp("created")
		d.Key.Revoked = vx.Bool("revoked")
		out, err := s.Decrypt(env.Ctx, d)
		vx.Assert("C07.unauthenticated_fields_ignored", vx.And(err == nil, vx.BytesEq(out, w.p1)))
	case 7: // another partition's genuine record
		d = *env.CloneDRR(w.other)
	case 8: // everything arbitrary at genuine lengths
		d.Data = vx.Bytes("data", len(w.r1.Data))
		d.Key.EncryptedKey = vx.Bytes("ekey", len(w.r1.Key.EncryptedKey))
		d.Key.ParentKeyMeta.Created = vx.Timestamp("pcreated")
	}
	w.oracle("C07.plaintext_or_error", d, s)
	vx.Reach("C07.records_end")
}

// Rows: genuine record, corrupted key rows in the metastore.
func Rows() {
	w := setup()
	// the decrypting process is cold, or already holds the keys - still fresh, or due for their revoke check - when
	// the rows get corrupted (a reload then meets a row that no longer matches what is cached)
	state := vx.Choice("reader_caches", 3)
	var warm *ae.Session
	if state != 0 {
		warm, _ = w.f.GetSession("p0")
		out, err := warm.Decrypt(env.Ctx, *w.r1)
		vx.Assert("C07.genuine_decrypts_before_corruption", vx.And(err == nil, vx.BytesEq(out, w.p1)))
	}
	ikRow := w.e.Store.Row(w.r1.Key.ParentKeyMeta.ID, w.r1.Key.ParentKeyMeta.Created)
	skRow := w.e.Store.Row(ikRow.ParentKeyMeta.ID, ikRow.ParentKeyMeta.Created)
	row := ikRow
	if vx.Choice("which", 2) == 1 {
		row = skRow
		vx.Tag("row", "SK")
	} else {
		vx.Tag("row", "IK")
	}
	switch vx.Choice("corruption", 8) {
	case 0:
		row.ParentKeyMeta = nil
		vx.Tag("corruption", "nil-parent")
	case 1:
		row.EncryptedKey = vx.BytesUpTo("rowkey", len(row.EncryptedKey)+1)
	case 2:
		row.EncryptedKey = nil
	case 3:
		row.Revoked = true
	case 4:
		if row.ParentKeyMeta != nil {
			row.ParentKeyMeta.Created = vx.Timestamp("rowparent")
		}
	case 5:
		id := idOf(w, row, ikRow)
		delete(w.e.Store.Inner.Envelopes[id], row.Created)
		if len(w.e.Store.Inner.Envelopes[id]) == 0 {
			delete(w.e.Store.Inner.Envelopes, id) // the store never holds an empty id bucket
		}
	case 6:
		row.Created = vx.Timestamp("rowcreated")
	case 7:
		if row.ParentKeyMeta != nil {
			row.ParentKeyMeta.ID = vx.String("rowpid", 16)
		}
	}
	s, _ := w.f.GetSession("p0")
	if warm != nil {
		s = warm
		if state == 2 {
			t, _ := vx.Now()
			vx.ClockFreeze(false)
			vx.ClockMin(t + 3700) // past the revoke-check interval of the policy in use (60 min)
			vx.Now()
			vx.ClockFreeze(true)
			vx.Tag("reader", "stale-caches")
		}
	}
	vx.FaultBudget("ext", vx.Param("faults"))
	w.oracle("C07.plaintext_or_error_with_corrupt_rows", *w.r1, s)
	vx.FaultBudget("ext", 0)
	// encrypt must not crash either on a corrupted latest row
	_, _ = s.Encrypt(env.Ctx, []byte{1})
	vx.Reach("C07.rows_end")
}

func idOf(w *world, row, ikRow *ae.EnvelopeKeyRecord) string {
	if row == ikRow {
		return w.r1.Key.ParentKeyMeta.ID
	}
	return ikRow.ParentKeyMeta.ID
}
