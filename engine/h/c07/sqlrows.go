package c07

import (
	ae "github.com/godaddy/asherah/go/appencryption"
	"github.com/godaddy/asherah/go/appencryption/pkg/persistence"

	"verifh/h/env"
	"verifh/vx"
)

// corrupt key_record texts: structurally malformed JSON, JSON of the wrong shape, and the JSON null
var corruptTexts = []string{
	`null`,
	` null `,
	`{}`,
	`[]`,
	`"x"`,
	`7`,
	``,
	`{`,
	`{"Key":"!!!not-base64"}`,
	`{"Key":"AAAA","Created":"soon"}`,
	`{"Created":1,"Key":"AAAA","ParentKeyMeta":null}`,
	`{"Created":1,"Key":"AAAA","ParentKeyMeta":{}}`,
	`{"Created":1,"Key":null,"ParentKeyMeta":{"KeyId":"_SK_svc_prod","Created":1}}`,
}

// SQLCorruptRows: key rows of the RDBMS metastore whose key_record column was corrupted (or written by something else):
// Load, LoadLatest and a session's Decrypt of a record that names such a row return an error (or nothing), they
// never crash and never hand out plaintext.
func SQLCorruptRows() {
	db := vx.SQLDB("mysql")
	m := persistence.NewSQLMetastore(db)
	txt := corruptTexts[vx.Choice("text", len(corruptTexts))]
	vx.Tag("key_record", txt)
	const created = 1700000000
	ik := env.IKID("p0")
	// which row is corrupt: the intermediate key's, or the system key's under an intact intermediate-key row
	skCorrupt := vx.Choice("corrupt_row", 2) == 1
	if skCorrupt {
		vx.SQLInsertRaw(db, env.SKID(), created, txt)
		vx.SQLInsertRaw(db, ik, created, `{"Created":1700000000,"Key":"AAAAAAAAAAAAAAAAAAAAAAAAAAAAAAAAAAAAAAAAAAAAAAAAAAAAAAAAAAAAAAAAAAAAAAAAAAAAAAAA","ParentKeyMeta":{"KeyId":"_SK_svc_prod","Created":1700000000}}`)
	} else {
		vx.SQLInsertRaw(db, ik, created, txt)
	}
	id := ik
	if skCorrupt {
		id = env.SKID()
	}
	rec, err := m.Load(env.Ctx, id, created)
	if err == nil && rec != nil {
		vx.Reach("C07.sql_row_parsed_as_record")
	}
	_, _ = m.LoadLatest(env.Ctx, id)
	// through a session
	e := env.New()
	vx.Now()
	vx.ClockFreeze(true)
	cfg := &ae.Config{Service: env.Service, Product: env.Product, Policy: e.Policy(env.Policies[0], vx.Choice("cache", vx.Param("caches")))}
	f := ae.NewSessionFactory(cfg, m, e.KMS, e.Crypto, ae.WithSecretFactory(e.Secrets))
	s, _ := f.GetSession("p0")
	d := ae.DataRowRecord{
		Key:  &ae.EnvelopeKeyRecord{Created: created, EncryptedKey: vx.Bytes("ekey", 60), ParentKeyMeta: &ae.KeyMeta{ID: ik, Created: created}},
		Data: vx.Bytes("data", 30),
	}
	out, err := s.Decrypt(env.Ctx, d)
	vx.Assert("C07.sql_corrupt_row_is_an_error", err != nil)
	vx.Assert("C07.sql_corrupt_row_no_plaintext", len(out) == 0)
	// an encrypt meets the same rows through LoadLatest: an error or fresh keys, never a crash
	s.Encrypt(env.Ctx, []byte{1})
	vx.Reach("C07.sql_rows_end")
}
