// Package c04: expired keys are never used to protect new data (inline rotation).
package c04

import (
	"time"

	ae "github.com/godaddy/asherah/go/appencryption"

	"verifh/h/env"
	"verifh/vx"
)

func secs(d time.Duration) int64 { return int64(d / time.Second) }

func faultsSoFar() int {
	return vx.Faulted("ext", "meta.Load") + vx.Faulted("ext", "meta.LoadLatest") + vx.Faulted("ext", "meta.Store") +
		vx.Faulted("ext", "kms.EncryptKey") + vx.Faulted("ext", "kms.DecryptKey")
}

// Expiry: one long-lived session encrypts N times at arbitrary non-decreasing instants.
func Expiry() {
	e := env.New()
	pol := env.Policies[vx.Choice("policy", vx.Param("policies"))]
	cache := vx.Choice("cache", vx.Param("caches"))
	f := e.Factory(e.Policy(pol, cache))
	// optionally the service's SK is older than this partition's IK: another partition was used earlier
	if vx.Choice("older_sk", 2) == 1 {
		vx.Now()
		vx.ClockFreeze(true)
		s1, _ := f.GetSession("p1")
		_, err := s1.Encrypt(env.Ctx, []byte{9})
		vx.Assert("C04.other_partition_ok", err == nil)
		s1.Close()
		vx.ClockFreeze(false)
		vx.Reach("C04.older_sk")
	}
	sess, _ := f.GetSession("p0")
	N := vx.Param("N")
	freeze := vx.Param("freeze") == 1
	E, I := secs(pol.Expire), secs(pol.Revoke)
	// reads=1: the session also keeps decrypting its first record at arbitrary instants between the encrypts;
	// reads must not keep an intermediate key in use whose system key has expired
	reads := vx.Param("reads") == 1
	var first *ae.DataRowRecord
	for i := 0; i < N; i++ {
		if reads && first != nil {
			for j := 0; j < 2; j++ {
				if vx.Choice("read_old_record", 2) == 1 {
					vx.ClockFreeze(false)
					vx.Now()
					vx.ClockFreeze(freeze)
					out, err := sess.Decrypt(env.Ctx, *first)
					vx.Assert("C04.old_record_still_decrypts", vx.And(err == nil, vx.BytesEq(out, []byte{0})))
					vx.Reach("C04.read_between_encrypts")
				}
			}
		}
		vx.ClockFreeze(false)
		ts, tn := vx.Now()
		vx.ClockFreeze(freeze)
		w0 := len(e.Store.Written)
		// faults=F: up to F metastore reads / KMS calls of this encrypt fail ("when the metastore accepts writes":
		// a call in which an insert was made to fail is outside the property); a faulted encrypt may return an error,
		// one that hands out a record is held to the same obligations
		F := vx.Param("faults")
		fb := faultsSoFar()
		sb := vx.Faulted("ext", "meta.Store")
		if F > 0 {
			vx.FaultCap(F)
			vx.FaultBudget("ext", F)
		}
		drr, err := sess.Encrypt(env.Ctx, []byte{byte(i)})
		vx.FaultBudget("ext", 0)
		faulted := faultsSoFar() > fb
		if vx.Faulted("ext", "meta.Store") > sb {
			vx.Reach("C04.store_fault_outside_property")
			vx.Stop()
		}
		vx.Assert("C04.encrypt_ok_when_store_accepts", err == nil || faulted)
		if err != nil {
			if faulted {
				vx.Reach("C04.faulted_encrypt_failed")
				continue
			}
			vx.Stop()
		}
		if first == nil {
			first = drr
		}
		ik := drr.Key.ParentKeyMeta.Created
		// 1. the named IK is not older than the key lifetime at the instant of the call
		vx.Assert("C04.ik_not_expired_at_call", vx.TimeLE(ts, tn, ik+E, 0))
		// 2. the named IK and its SK are in the store
		row := e.Store.Row(env.IKID("p0"), ik)
		vx.Assert("C04.ik_row_present", row != nil)
		if row == nil {
			vx.Stop()
		}
		sk := row.ParentKeyMeta.Created
		vx.Assert("C04.sk_row_present", e.Store.Row(env.SKID(), sk) != nil)
		// 3. no IK row written during this call names an SK that was expired at the call
		for _, ev := range e.Store.Written[w0:] {
			if ev.EKR.ParentKeyMeta != nil {
				vx.Assert("C04.new_ik_under_unexpired_sk", vx.TimeLE(ts, tn, ev.EKR.ParentKeyMeta.Created+E, 0))
				vx.Reach("C04.ik_created")
			}
		}
		// 4. an IK whose parent SK expired stops being used within one revoke-check interval
		vx.Assert("C04.ik_of_expired_sk_retired_within_interval", vx.TimeLE(ts, tn, sk+E+I, 0))
		if i > 0 {
			vx.Reach("C04.later_encrypt")
		}
	}
	vx.Reach("C04.end")
}

var _ = ae.AES256KeySize
