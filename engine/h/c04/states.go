package c04

import (
	"verifh/h/env"
	"verifh/vx"
)

// StoredStates: the one-step form of the property over arbitrary stored key states. The metastore holds one system
// key and one intermediate key under it whose creation stamps are two independent arbitrary instants in the past
// (valid, about to expire, expired; the intermediate key older or younger than its system key) and whose revoked flags
// are arbitrary; a process with cold caches - or one that cached both keys when it last used them, an arbitrary time
// ago - encrypts once at an arbitrary instant. Whatever the combination, the record it hands out names a stored
// intermediate key that is neither expired nor revoked, under a system key that is neither expired nor revoked.
func StoredStates() {
	e := env.New()
	pol := env.Policies[vx.Choice("policy", vx.Param("policies"))]
	cache := vx.Choice("cache", vx.Param("caches"))
	E, P := secs(pol.Expire), secs(pol.Precision)
	// genuine key material, created by an earlier process
	f0 := e.Factory(e.Policy(pol, env.CacheDefault))
	s0, _ := f0.GetSession("p0")
	vx.Now()
	vx.ClockFreeze(true)
	r0, err := s0.Encrypt(env.Ctx, []byte{7})
	vx.Assert("C04.states_setup_ok", err == nil)
	if err != nil {
		vx.Stop()
	}
	s0.Close()
	f0.Close()
	ik0 := r0.Key.ParentKeyMeta.Created
	sk0 := e.Store.Row(env.IKID("p0"), ik0).ParentKeyMeta.Created
	// the stored state: arbitrary creation stamps and flags
	ikC, skC := vx.Timestamp("ik_created"), vx.Timestamp("sk_created")
	vx.Assume(ikC >= 0 && skC >= 0)
	sk := e.Store.Redate(env.SKID(), sk0, skC)
	ik := e.Store.Redate(env.IKID("p0"), ik0, ikC)
	ik.ParentKeyMeta.Created = skC
	ik.Revoked = vx.Bool("ik_revoked")
	sk.Revoked = vx.Bool("sk_revoked")
	// the call happens later than both stamps by more than the stamp precision (a replacement key created now gets a
	// later stamp than the stored ones: "when the metastore accepts writes" / "provided a key with a later creation
	// stamp can be created")
	vx.ClockFreeze(false)
	ts, tn := vx.Now()
	vx.ClockFreeze(true)
	vx.Assume(ikC+P+1 <= ts && skC+P+1 <= ts)
	w0 := len(e.Store.Written)
	f := e.Factory(e.Policy(pol, cache))
	sess, _ := f.GetSession("p0")
	drr, err := sess.Encrypt(env.Ctx, []byte{1})
	vx.Assert("C04.states_encrypt_ok", err == nil)
	if err != nil {
		vx.Stop()
	}
	nik := drr.Key.ParentKeyMeta.Created
	row := e.Store.Row(env.IKID("p0"), nik)
	vx.Assert("C04.states_ik_row_present", row != nil)
	if row == nil {
		vx.Stop()
	}
	vx.Assert("C04.states_ik_not_expired_at_call", vx.TimeLE(ts, tn, nik+E, 0))
	vx.Assert("C05.states_ik_not_revoked", !row.Revoked)
	nsk := row.ParentKeyMeta.Created
	skRow := e.Store.Row(env.SKID(), nsk)
	vx.Assert("C04.states_sk_row_present", skRow != nil)
	if skRow == nil {
		vx.Stop()
	}
	vx.Assert("C04.states_sk_not_expired_at_call", vx.TimeLE(ts, tn, nsk+E, 0))
	vx.Assert("C05.states_sk_not_revoked", !skRow.Revoked)
	for _, ev := range e.Store.Written[w0:] {
		if ev.EKR.ParentKeyMeta != nil {
			vx.Assert("C04.states_new_ik_under_unexpired_sk", vx.TimeLE(ts, tn, ev.EKR.ParentKeyMeta.Created+E, 0))
			vx.Reach("C04.states_ik_created")
		}
	}
	if nik == ikC {
		vx.Reach("C04.states_stored_ik_reused")
	}
	// the old record stays readable whatever happened to its keys
	out, err := sess.Decrypt(env.Ctx, *r0)
	_ = out
	_ = err
	vx.Reach("C04.states_end")
}
