// Package c10: transient plaintext key copies on the Go heap are wiped before the call returns.
package c10

import (
	"context"
	ae "github.com/godaddy/asherah/go/appencryption"
	"github.com/godaddy/asherah/go/appencryption/pkg/crypto/aead"
	"github.com/godaddy/asherah/go/appencryption/pkg/kms"
	"github.com/godaddy/asherah/go/securememory"
	"github.com/godaddy/asherah/go/securememory/memguard"
	"github.com/godaddy/asherah/go/securememory/protectedmemory"

	"verifh/h/env"
	"verifh/vx"
)

// spyAEAD retains every buffer it returned from Decrypt (decrypted SK / IK / DRK plaintexts, and payloads).
type spyAEAD struct {
	inner ae.AEAD
	outs  [][]byte
}

func (s *spyAEAD) Encrypt(data, key []byte) ([]byte, error) { return s.inner.Encrypt(data, key) }

func (s *spyAEAD) Decrypt(data, key []byte) ([]byte, error) {
	out, err := s.inner.Decrypt(data, key)
	if err == nil && len(out) > 0 {
		s.outs = append(s.outs, out)
	}
	return out, err
}

func same(a, b []byte) bool { return len(a) > 0 && len(b) > 0 && &a[0] == &b[0] }

// checkWiped: every retained buffer except the one handed back to the caller is all zero.
func (s *spyAEAD) checkWiped(label string, returned []byte) {
	for _, b := range s.outs {
		if same(b, returned) {
			continue
		}
		vx.Assert(label, vx.AllZero(b))
	}
	s.outs = nil
}

// callCtx: the caller's context for one operation; with ctxcancel=1 it may end while a metastore / KMS call of the
// operation is in flight (that call still succeeds and hands back its plaintext).
func callCtx() (context.Context, func()) {
	if vx.Param("ctxcancel") == 1 {
		return env.CancellableCtx()
	}
	return env.Ctx, func() {}
}

// Wipes: cold/warm encrypts and decrypts with the real secure-memory factories; optional allocator fault.
func Wipes() {
	spy := &spyAEAD{inner: aead.NewAES256GCM()}
	k, err := kms.NewStatic(env.MasterKey, spy)
	vx.Assert("C10.kms_ok", err == nil)
	var sf securememory.SecretFactory
	if vx.Choice("factory", 2) == 0 {
		sf = new(memguard.SecretFactory)
		vx.Tag("factory", "memguard")
	} else {
		sf = new(protectedmemory.SecretFactory)
		vx.Tag("factory", "protectedmemory")
	}
	e := env.New()
	pol := e.Policy(env.Policies[0], vx.Choice("cache", vx.Param("caches")))
	mk := func() *ae.SessionFactory {
		return ae.NewSessionFactory(&ae.Config{Service: env.Service, Product: env.Product, Policy: pol}, e.Store, k, spy, ae.WithSecretFactory(sf))
	}
	f := mk()
	s, _ := f.GetSession("p0")
	vx.Now()
	vx.ClockFreeze(true)
	B := vx.Param("faults")
	// faults are injected in one of the three operations per path (0: none)
	window := vx.Choice("fault_window", 4)
	cur := 0
	fault := func(on bool) {
		n := 0
		if on {
			cur++
			if cur == window {
				n = B
			}
		}
		vx.FaultCap(n)
		vx.FaultBudget("memcall", n)
		vx.FaultBudget("memguard", n)
	}
	// cold encrypt: SK and IK are created (no unwrap yet)
	fault(true)
	rec, err := s.Encrypt(env.Ctx, []byte{1, 2})
	fault(false)
	spy.checkWiped("C10.wiped_after_cold_encrypt", nil)
	if err != nil {
		vx.Reach("C10.cold_encrypt_failed")
		// retry without faults so that the rest of the scenario has a record
		rec, err = s.Encrypt(env.Ctx, []byte{1, 2})
		vx.Assert("C10.retry_ok", err == nil)
		spy.checkWiped("C10.wiped_after_retry", nil)
	}
	// warm decrypt (IK cached): only the DRK is unwrapped
	out, err := s.Decrypt(env.Ctx, *rec)
	vx.Assert("C10.warm_decrypt_ok", err == nil)
	spy.checkWiped("C10.wiped_after_warm_decrypt", out)
	// a record whose key part is intact but whose Data was tampered with: the DRK is unwrapped, the payload is not
	bad := *env.CloneDRR(rec)
	bad.Data = vx.Bytes("tampered", len(rec.Data))
	out, err = s.Decrypt(env.Ctx, bad)
	spy.checkWiped("C10.wiped_after_failed_payload_decrypt", out)
	if err != nil {
		vx.Reach("C10.payload_decrypt_failed")
	}
	// a fresh process: decrypt with cold caches unwraps SK (KMS), IK and DRK - under an allocator fault
	f2 := mk()
	s2, _ := f2.GetSession("p0")
	fault(true)
	ctx, done := callCtx()
	out, err = s2.Decrypt(ctx, *rec)
	done()
	fault(false)
	spy.checkWiped("C10.wiped_after_cold_decrypt", out)
	if err != nil {
		vx.Reach("C10.cold_decrypt_failed")
	} else {
		vx.Reach("C10.cold_decrypt_ok")
	}
	// and a cold encrypt in a third process: loads latest IK and SK from the store
	f3 := mk()
	s3, _ := f3.GetSession("p0")
	fault(true)
	ctx, done = callCtx()
	_, err = s3.Encrypt(ctx, []byte{3})
	done()
	fault(false)
	spy.checkWiped("C10.wiped_after_loading_encrypt", nil)
	vx.Reach("C10.end")
}
