// Package c03: envelope discipline - fresh random DRK and nonce per write; keys wrapped only by their parent;
// no plaintext key or payload bytes in any record, metastore row, KMS request or log line.
package c03

import (
	ae "github.com/godaddy/asherah/go/appencryption"
	"github.com/godaddy/asherah/go/appencryption/pkg/log"

	"verifh/h/env"
	"verifh/vx"
)

type capLogger struct{ args [][]byte }

func (l *capLogger) Debugf(format string, v ...interface{}) {
	for _, a := range v {
		switch x := a.(type) {
		case []byte:
			l.args = append(l.args, x)
		case *ae.DataRowRecord:
			if x != nil {
				l.args = append(l.args, x.Data)
			}
		}
	}
}

const (
	lvMaster = iota
	lvSK
	lvIK
	lvDRK
	lvPayload
)

// Discipline: a history of encrypts over two partitions with a forced rotation in the middle.
func Discipline() {
	e := env.New()
	lg := &capLogger{}
	log.SetLogger(lg)
	pol := e.Policy(env.Policies[1], vx.Choice("cache", vx.Param("caches")))
	f := e.Factory(pol)
	parts := []string{"p0", "p1"}
	N := vx.Param("N")
	var payloads [][]byte
	var recs []*ae.DataRowRecord
	usedNonce := map[int]bool{}
	usedDataKey := map[int]bool{}
	tick := func() {
		vx.ClockFreeze(false)
		vx.Now()
		vx.ClockFreeze(true)
	}
	for i := 0; i < N; i++ {
		part := parts[vx.Choice("part", 2)]
		if i == N/2 && vx.Choice("rotate", 2) == 1 {
			// force a rotation: revoke the latest IK and SK and let the revoke-check interval pass
			if r := e.Store.Latest(env.IKID(part)); r != nil {
				r.Revoked = true
			}
			if r := e.Store.Latest(env.SKID()); r != nil {
				r.Revoked = true
			}
			t, _ := vx.Now()
			vx.ClockFreeze(false)
			vx.ClockMin(t + 120)
			vx.Reach("C03.rotated")
		}
		tick()
		s, _ := f.GetSession(part)
		payload := vx.Bytes("payload", vx.Param("P"))
		s0, d0 := vx.SealCount(), vx.DrawCount()
		rec, err := s.Encrypt(env.Ctx, payload)
		vx.Assert("C03.encrypt_ok", err == nil)
		if err != nil {
			vx.Stop()
		}
		s.Close()
		payloads = append(payloads, payload)
		recs = append(recs, rec)
		// 1. freshness as provenance: the payload is sealed exactly once, under a 32-byte draw made in this call,
		//    with a 12-byte nonce drawn in this call; no draw is ever used twice
		found := 0
		for j := s0; j < vx.SealCount(); j++ {
			n := vx.DrawIndexOf(vx.SealNonce(j))
			vx.Assert("C03.nonce_is_a_fresh_draw_of_this_call", n >= d0 && vx.DrawLen(n) == 12)
			vx.Assert("C03.nonce_never_reused", !usedNonce[n])
			usedNonce[n] = true
			if vx.SameTerms(vx.SealPlain(j), payload) {
				found++
				k := vx.DrawIndexOf(vx.SealKey(j))
				vx.Assert("C03.data_key_is_a_fresh_random_256bit_draw_of_this_call", k >= d0 && vx.DrawLen(k) == 32)
				vx.Assert("C03.data_key_never_reused", !usedDataKey[k])
				usedDataKey[k] = true
			}
		}
		vx.Assert("C03.payload_sealed_exactly_once", found == 1)
	}
	// 2. hierarchy over the whole history
	level := map[int]int{} // draw index -> level
	setLevel := func(k, lv int) {
		if old, ok := level[k]; ok && old != lv {
			vx.Assert("C03.every_key_has_one_role", false)
		}
		level[k] = lv
	}
	isPayload := func(b []byte) bool {
		for _, p := range payloads {
			if vx.SameTerms(b, p) {
				return true
			}
		}
		return false
	}
	// pass 1: system keys are the draws sealed under the (concrete) master key by the KMS
	for j := 0; j < vx.SealCount(); j++ {
		if vx.IsConcrete(vx.SealKey(j)) {
			k := vx.DrawIndexOf(vx.SealPlain(j))
			vx.Assert("C03.kms_only_wraps_system_keys", k >= 0 && vx.DrawLen(k) == 32)
			setLevel(k, lvSK)
		}
	}
	for pass := lvSK; pass <= lvIK; pass++ {
		for j := 0; j < vx.SealCount(); j++ {
			kk := vx.DrawIndexOf(vx.SealKey(j))
			if kk >= 0 && level[kk] == pass {
				if _, known := level[kk]; !known {
					continue
				}
				px := vx.DrawIndexOf(vx.SealPlain(j))
				vx.Assert("C03.keys_wrap_only_their_children", px >= 0 && vx.DrawLen(px) == 32 && !isPayload(vx.SealPlain(j)))
				setLevel(px, pass+1)
			}
		}
	}
	for j := 0; j < vx.SealCount(); j++ {
		if vx.IsConcrete(vx.SealKey(j)) {
			continue
		}
		kk := vx.DrawIndexOf(vx.SealKey(j))
		lv, known := level[kk]
		vx.Assert("C03.every_seal_key_is_a_key_of_the_hierarchy", kk >= 0 && known)
		if isPayload(vx.SealPlain(j)) {
			vx.Assert("C03.payload_only_under_a_data_key", lv == lvDRK)
		} else {
			px := vx.DrawIndexOf(vx.SealPlain(j))
			vx.Assert("C03.key_only_under_its_parent", px >= 0 && level[px] == lv+1)
		}
	}
	// 3. nothing secret leaves: records, metastore rows and log arguments do not depend on payload or key bytes
	var secrets []byte
	for _, p := range payloads {
		secrets = append(secrets, p...)
	}
	for k := 0; k < vx.DrawCount(); k++ {
		if _, isKey := level[k]; isKey {
			secrets = append(secrets, drawBytes(k)...)
		}
	}
	for _, r := range recs {
		vx.Assert("C03.no_plaintext_in_record_data", !vx.DependsOn(r.Data, secrets))
		vx.Assert("C03.no_plaintext_in_record_key", !vx.DependsOn(r.Key.EncryptedKey, secrets))
	}
	for _, row := range e.Store.Snapshot() {
		vx.Assert("C03.no_plaintext_in_metastore_row", !vx.DependsOn(row.Ptr.EncryptedKey, secrets))
	}
	for _, a := range lg.args {
		vx.Assert("C03.no_plaintext_in_log_arguments", !vx.DependsOn(a, secrets))
	}
	vx.Reach("C03.end")
}

// drawBytes rebuilds draw k from the seal log (keys are draws): find a seal whose key or plaintext is draw k.
func drawBytes(k int) []byte {
	for j := 0; j < vx.SealCount(); j++ {
		if vx.DrawIndexOf(vx.SealKey(j)) == k {
			return vx.SealKey(j)
		}
		if vx.DrawIndexOf(vx.SealPlain(j)) == k {
			return vx.SealPlain(j)
		}
	}
	return nil
}

// ReadBackLogs: with the debug logger installed, a record is written and read back - genuinely, in a warm and in a
// fresh process, and damaged so that the data key, the payload or the parent lookup fails (the error paths log too).
// No logger argument may depend on a payload or key byte.
func ReadBackLogs() {
	e := env.New()
	lg := &capLogger{}
	log.SetLogger(lg)
	pol := e.Policy(env.Policies[1], vx.Choice("cache", vx.Param("caches")))
	f := e.Factory(pol)
	vx.Now()
	vx.ClockFreeze(true)
	s, _ := f.GetSession("p0")
	payload := vx.Bytes("payload", 2)
	rec, err := s.Encrypt(env.Ctx, payload)
	vx.Assert("C03.rb_encrypt_ok", err == nil)
	if err != nil {
		vx.Stop()
	}
	reader := s
	if vx.Choice("fresh_process", 2) == 1 {
		reader, _ = e.Factory(pol).GetSession("p0")
	}
	out, err := reader.Decrypt(env.Ctx, *rec)
	vx.Assert("C03.rb_reads_back", vx.And(err == nil, vx.BytesEq(out, payload)))
	bad := *env.CloneDRR(rec)
	switch vx.Choice("damage", 3) {
	case 0:
		bad.Key.EncryptedKey = vx.Bytes("badkey", len(rec.Key.EncryptedKey))
	case 1:
		bad.Data = vx.Bytes("baddata", len(rec.Data))
	default:
		bad.Key.ParentKeyMeta.Created = vx.Timestamp("badparent")
	}
	_, err = reader.Decrypt(env.Ctx, bad)
	if err != nil {
		vx.Reach("C03.rb_error_path")
	}
	// secrets: the payload and every key of the hierarchy (all 32-byte draws that were sealed or used as seal keys)
	secrets := append([]byte(nil), payload...)
	for j := 0; j < vx.SealCount(); j++ {
		if !vx.IsConcrete(vx.SealKey(j)) {
			secrets = append(secrets, vx.SealKey(j)...)
		}
		if k := vx.DrawIndexOf(vx.SealPlain(j)); k >= 0 && vx.DrawLen(k) == 32 {
			secrets = append(secrets, vx.SealPlain(j)...)
		}
	}
	vx.Assert("C03.rb_logger_saw_something_or_nothing", len(lg.args) >= 0)
	for _, a := range lg.args {
		vx.Assert("C03.no_plaintext_in_log_arguments", !vx.DependsOn(a, secrets))
	}
	vx.Reach("C03.rb_end")
}

// ReleaseFaults: an encrypt during which re-protecting a key's memory fails once, after the step that used the key has
// already run (what the secure-memory layer reports under memory pressure). Whatever the SDK does about the error, no
// data key seals the payload twice and the payload is sealed under one data key only; a failed encrypt returns no
// record and the next one works.
func ReleaseFaults() {
	e := env.New()
	pol := e.Policy(env.Policies[1], vx.Choice("cache", vx.Param("caches")))
	f := e.Factory(pol)
	vx.Now()
	vx.ClockFreeze(true)
	s, _ := f.GetSession("p0")
	_, err := s.Encrypt(env.Ctx, []byte{9, 9})
	vx.Assert("C03.rf_warmup_ok", err == nil)
	payload := vx.Bytes("payload", 2)
	s0 := vx.SealCount()
	vx.FaultCap(1)
	vx.FaultBudget("secretrelease", 1)
	rec, err := s.Encrypt(env.Ctx, payload)
	vx.FaultBudget("secretrelease", 0)
	seals := 0
	for j := s0; j < vx.SealCount(); j++ {
		if vx.SameTerms(vx.SealPlain(j), payload) {
			seals++
		}
	}
	vx.Assert("C03.rf_payload_sealed_at_most_once", seals <= 1)
	if err != nil {
		vx.Assert("C03.rf_error_means_no_record", rec == nil)
		vx.Reach("C03.rf_encrypt_failed")
	} else {
		vx.Assert("C03.rf_payload_sealed_exactly_once", seals == 1)
	}
	rec2, err := s.Encrypt(env.Ctx, payload)
	vx.Assert("C03.rf_next_encrypt_ok", err == nil && rec2 != nil)
	vx.Reach("C03.rf_end")
}
