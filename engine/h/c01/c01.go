// Package c01: anything encrypted decrypts back, across time, rotation, caches and processes.
package c01

import (
	ae "github.com/godaddy/asherah/go/appencryption"

	"verifh/h/env"
	"verifh/vx"
)

type rec struct {
	drr     *ae.DataRowRecord
	payload []byte
}

const (
	opEncrypt = iota
	opDecrypt
	opDecryptFreshSession
	opRestartFactory
	opRevokeIK
	opRevokeSK
	opOtherProcessEncrypts
	opReopenSession
	numOps
)

// RoundTrip runs a symbolic program of L operations against one partition.
func RoundTrip() {
	e := env.New()
	pol := env.Policies[vx.Choice("policy", vx.Param("policies"))]
	cache := vx.Choice("cache", vx.Param("caches"))
	f := e.Factory(e.Policy(pol, cache))
	sess, err := f.GetSession("p0")
	vx.Assert("C01.getsession", err == nil)
	var recs []rec
	L := vx.Param("L")
	P := vx.Param("P")
	freeze := vx.Param("freeze") == 1
	// tick lets an arbitrary amount of time pass; with freeze=1 the clock then stands still
	// until the next tick (time advances between SDK calls, not inside them).
	tick := func() {
		vx.ClockFreeze(false)
		vx.Now()
		vx.ClockFreeze(freeze)
	}

	encrypt := func(s *ae.Session) {
		payload := vx.BytesUpTo("payload", P)
		keep := append([]byte(nil), payload...)
		tick()
		drr, err := s.Encrypt(env.Ctx, payload)
		vx.Assert("C01.encrypt_ok", err == nil)
		if err != nil {
			vx.Stop()
		}
		vx.Assert("C01.payload_unmodified", vx.BytesEq(payload, keep))
		recs = append(recs, rec{drr, keep})
	}
	check := func(s *ae.Session, r rec) {
		before := env.CloneDRR(r.drr)
		tick()
		out, err := s.Decrypt(env.Ctx, *r.drr)
		vx.Assert("C01.decrypt_ok", err == nil)
		if err != nil {
			vx.Stop()
		}
		vx.Assert("C01.roundtrip", vx.BytesEq(out, r.payload))
		vx.Assert("C01.record_unmodified", env.SameDRR(before, r.drr))
		vx.Reach("C01.decrypted")
	}

	encrypt(sess)
	for i := 0; i < L; i++ {
		switch vx.Choice("op", numOps) {
		case opEncrypt:
			if len(recs) < 3 {
				encrypt(sess)
			}
		case opDecrypt:
			check(sess, recs[vx.Choice("j", len(recs))])
		case opDecryptFreshSession:
			s2, err := f.GetSession("p0")
			vx.Assert("C01.getsession", err == nil)
			check(s2, recs[vx.Choice("j", len(recs))])
			s2.Close()
		case opRestartFactory:
			sess.Close()
			f.Close()
			f = e.Factory(e.Policy(pol, vx.Choice("cache2", vx.Param("caches"))))
			sess, _ = f.GetSession("p0")
			vx.Reach("C01.restarted")
		case opRevokeIK:
			if r := e.Store.Latest(env.IKID("p0")); r != nil {
				r.Revoked = true
				vx.Reach("C01.revoked_ik")
			}
		case opRevokeSK:
			if r := e.Store.Latest(env.SKID()); r != nil {
				r.Revoked = true
				vx.Reach("C01.revoked_sk")
			}
		case opOtherProcessEncrypts:
			f2 := e.Factory(e.Policy(pol, env.CacheDefault))
			s2, _ := f2.GetSession("p0")
			tick()
			r2, err := s2.Encrypt(env.Ctx, []byte{1})
			vx.Assert("C01.other_encrypt_ok", err == nil)
			if err == nil && len(recs) < 4 {
				recs = append(recs, rec{r2, []byte{1}}) // records of other processes must decrypt everywhere too
			}
			s2.Close()
			f2.Close()
		case opReopenSession:
			sess.Close()
			sess, _ = f.GetSession("p0")
		}
	}
	// final: every record decrypts in the current session and in a brand-new process,
	// at one arbitrary later instant
	tick()
	vx.ClockFreeze(true)
	tick = func() {}
	check(sess, recs[len(recs)-1])
	f3 := e.Factory(e.Policy(pol, env.CacheDefault))
	s3, _ := f3.GetSession("p0")
	for _, r := range recs {
		check(s3, r)
	}
	vx.Reach("C01.end")
}

// Rotations: the multi-step rotation scenarios spelled out: a record is written, the latest IK and/or SK is
// revoked (or left to expire), another process encrypts - at the same instant (same CreateDatePrecision bucket,
// so its insert is refused as a duplicate) or at an arbitrary later one -, the first session encrypts again, and
// every record must decrypt in the writing session, in the other session and in a brand-new process.
func Rotations() {
	e := env.New()
	pol := env.Policies[vx.Choice("policy", vx.Param("policies"))]
	fa := e.Factory(e.Policy(pol, vx.Choice("cacheA", vx.Param("caches"))))
	fb := e.Factory(e.Policy(pol, vx.Choice("cacheB", vx.Param("caches"))))
	sa, _ := fa.GetSession("p0")
	sb, _ := fb.GetSession("p0")
	var recs []rec
	enc := func(s *ae.Session, tag byte) {
		p := []byte{tag, vx.Byte("b")}
		keep := append([]byte(nil), p...)
		d, err := s.Encrypt(env.Ctx, p)
		vx.Assert("C01.encrypt_ok", err == nil)
		if err != nil {
			vx.Stop()
		}
		recs = append(recs, rec{d, keep})
	}
	vx.Now()
	vx.ClockFreeze(true)
	enc(sa, 1)
	switch vx.Choice("revoke", 4) {
	case 1:
		e.Store.Latest(env.IKID("p0")).Revoked = true
	case 2:
		e.Store.Latest(env.SKID()).Revoked = true
	case 3:
		e.Store.Latest(env.IKID("p0")).Revoked = true
		e.Store.Latest(env.SKID()).Revoked = true
	}
	if vx.Choice("later", 2) == 1 {
		vx.ClockFreeze(false)
		vx.Now()
		vx.ClockFreeze(true)
	}
	enc(sb, 2)
	if vx.Choice("later2", 2) == 1 {
		vx.ClockFreeze(false)
		vx.Now()
		vx.ClockFreeze(true)
	}
	enc(sa, 3)
	fc := e.Factory(e.Policy(pol, env.CacheDefault))
	sc, _ := fc.GetSession("p0")
	for _, s := range []*ae.Session{sa, sb, sc} {
		for _, r := range recs {
			out, err := s.Decrypt(env.Ctx, *r.drr)
			vx.Assert("C01.rotation_roundtrip", vx.And(err == nil, vx.BytesEq(out, r.payload)))
		}
	}
	vx.Reach("C01.rotations_end")
}
