// Package c01: anything encrypted decrypts back, across time, rotation, caches and processes.
package c01

import (
	"context"
	"errors"

	ae "github.com/godaddy/asherah/go/appencryption"

	"verifh/h/env"
	"verifh/vx"
)

type rec struct {
	drr     *ae.DataRowRecord
	payload []byte
}

const (
	opEncrypt = iota
	opDecrypt
	opDecryptFreshSession
	opRestartFactory
	opRevokeIK
	opRevokeSK
	opOtherProcessEncrypts
	opReopenSession
	numOps
)

// RoundTrip runs a symbolic program of L operations against one partition.
func RoundTrip() {
	e := env.New()
	pol := env.Policies[vx.Choice("policy", vx.Param("policies"))]
	cache := vx.Choice("cache", vx.Param("caches"))
	f := e.Factory(e.Policy(pol, cache))
	sess, err := f.GetSession("p0")
	vx.Assert("C01.getsession", err == nil)
	var recs []rec
	L := vx.Param("L")
	P := vx.Param("P")
	freeze := vx.Param("freeze") == 1
	// tick lets an arbitrary amount of time pass; with freeze=1 the clock then stands still
	// until the next tick (time advances between SDK calls, not inside them).
	tick := func() {
		vx.ClockFreeze(false)
		vx.Now()
		vx.ClockFreeze(freeze)
	}

	encrypt := func(s *ae.Session) {
		payload := vx.BytesUpTo("payload", P)
		keep := append([]byte(nil), payload...)
		// the caller's slice may sit inside a larger buffer (pooled / re-sliced buffers): spare capacity behind
		// the payload belongs to the caller as well
		var whole []byte
		if vx.Choice("payload_has_spare_capacity", 2) == 1 {
			whole = make([]byte, len(payload), len(payload)+48)
			copy(whole, payload)
			payload = whole
		}
		tick()
		drr, err := s.Encrypt(env.Ctx, payload)
		vx.Assert("C01.encrypt_ok", err == nil)
		if err != nil {
			vx.Stop()
		}
		vx.Assert("C01.payload_unmodified", vx.BytesEq(payload, keep))
		if whole != nil {
			vx.Assert("C01.buffer_behind_payload_untouched", vx.AllZero(whole[len(payload):cap(whole)]))
			// the caller reuses its buffer: records already handed out must not change with it
			for i := range whole[:cap(whole)] {
				whole[:cap(whole)][i] = 0xee
			}
			vx.Reach("C01.spare_capacity_payload")
		}
		recs = append(recs, rec{drr, keep})
	}
	check := func(s *ae.Session, r rec) {
		before := env.CloneDRR(r.drr)
		tick()
		out, err := s.Decrypt(env.Ctx, *r.drr)
		vx.Assert("C01.decrypt_ok", err == nil)
		if err != nil {
			vx.Stop()
		}
		vx.Assert("C01.roundtrip", vx.BytesEq(out, r.payload))
		vx.Assert("C01.record_unmodified", env.SameDRR(before, r.drr))
		vx.Reach("C01.decrypted")
	}

	encrypt(sess)
	for i := 0; i < L; i++ {
		switch vx.Choice("op", numOps) {
		case opEncrypt:
			if len(recs) < 3 {
				encrypt(sess)
			}
		case opDecrypt:
			check(sess, recs[vx.Choice("j", len(recs))])
		case opDecryptFreshSession:
			s2, err := f.GetSession("p0")
			vx.Assert("C01.getsession", err == nil)
			check(s2, recs[vx.Choice("j", len(recs))])
			s2.Close()
		case opRestartFactory:
			sess.Close()
			f.Close()
			f = e.Factory(e.Policy(pol, vx.Choice("cache2", vx.Param("caches"))))
			sess, _ = f.GetSession("p0")
			vx.Reach("C01.restarted")
		case opRevokeIK:
			if r := e.Store.Latest(env.IKID("p0")); r != nil {
				r.Revoked = true
				vx.Reach("C01.revoked_ik")
			}
		case opRevokeSK:
			if r := e.Store.Latest(env.SKID()); r != nil {
				r.Revoked = true
				vx.Reach("C01.revoked_sk")
			}
		case opOtherProcessEncrypts:
			f2 := e.Factory(e.Policy(pol, env.CacheDefault))
			s2, _ := f2.GetSession("p0")
			tick()
			r2, err := s2.Encrypt(env.Ctx, []byte{1})
			vx.Assert("C01.other_encrypt_ok", err == nil)
			if err == nil && len(recs) < 4 {
				recs = append(recs, rec{r2, []byte{1}}) // records of other processes must decrypt everywhere too
			}
			s2.Close()
			f2.Close()
		case opReopenSession:
			sess.Close()
			sess, _ = f.GetSession("p0")
		}
	}
	// final: every record decrypts in the current session and in a brand-new process,
	// at one arbitrary later instant
	tick()
	vx.ClockFreeze(true)
	tick = func() {}
	check(sess, recs[len(recs)-1])
	f3 := e.Factory(e.Policy(pol, env.CacheDefault))
	s3, _ := f3.GetSession("p0")
	for _, r := range recs {
		check(s3, r)
	}
	vx.Reach("C01.end")
}

// Rotations: the multi-step rotation scenarios spelled out: a record is written, the latest IK and/or SK is
// revoked (or left to expire), another process encrypts - at the same instant (same CreateDatePrecision bucket,
// so its insert is refused as a duplicate) or at an arbitrary later one -, the first session encrypts again, and
// every record must decrypt in the writing session, in the other session and in a brand-new process.
func Rotations() {
	e := env.New()
	pol := env.Policies[vx.Choice("policy", vx.Param("policies"))]
	fa := e.Factory(e.Policy(pol, vx.Choice("cacheA", vx.Param("caches"))))
	fb := e.Factory(e.Policy(pol, vx.Choice("cacheB", vx.Param("caches"))))
	sa, _ := fa.GetSession("p0")
	sb, _ := fb.GetSession("p0")
	var recs []rec
	enc := func(s *ae.Session, tag byte) {
		p := []byte{tag, vx.Byte("b")}
		keep := append([]byte(nil), p...)
		d, err := s.Encrypt(env.Ctx, p)
		vx.Assert("C01.encrypt_ok", err == nil)
		if err != nil {
			vx.Stop()
		}
		recs = append(recs, rec{d, keep})
	}
	vx.Now()
	vx.ClockFreeze(true)
	enc(sa, 1)
	switch vx.Choice("revoke", 4) {
	case 1:
		e.Store.Latest(env.IKID("p0")).Revoked = true
	case 2:
		e.Store.Latest(env.SKID()).Revoked = true
	case 3:
		e.Store.Latest(env.IKID("p0")).Revoked = true
		e.Store.Latest(env.SKID()).Revoked = true
	}
	if vx.Choice("later", 2) == 1 {
		vx.ClockFreeze(false)
		vx.Now()
		vx.ClockFreeze(true)
	}
	enc(sb, 2)
	if vx.Choice("later2", 2) == 1 {
		vx.ClockFreeze(false)
		vx.Now()
		vx.ClockFreeze(true)
	}
	enc(sa, 3)
	fc := e.Factory(e.Policy(pol, env.CacheDefault))
	sc, _ := fc.GetSession("p0")
	for _, s := range []*ae.Session{sa, sb, sc} {
		for _, r := range recs {
			out, err := s.Decrypt(env.Ctx, *r.drr)
			vx.Assert("C01.rotation_roundtrip", vx.And(err == nil, vx.BytesEq(out, r.payload)))
		}
	}
	vx.Reach("C01.rotations_end")
}

// kvStore is the caller's data persistence store behind Session.Store / Session.Load.
type kvStore struct {
	rows     map[int]ae.DataRowRecord
	next     int
	failNext bool
}

var errKV = errors.New("kv store unavailable")

func (k *kvStore) Store(_ context.Context, d ae.DataRowRecord) (interface{}, error) {
	if k.failNext {
		k.failNext = false
		return nil, errKV
	}
	k.next++
	k.rows[k.next] = d
	return k.next, nil
}

func (k *kvStore) Load(_ context.Context, key interface{}) (*ae.DataRowRecord, error) {
	if k.failNext {
		k.failNext = false
		return nil, errKV
	}
	d, ok := k.rows[key.(int)]
	if !ok {
		return nil, errors.New("no such row")
	}
	return &d, nil
}

// StoreLoad: the Store / Load form of the API. What Store persisted through the caller's Storer loads back to the
// original payload - in the same session, in another session and in another process, at any later instant - and a
// failing Storer / Loader surfaces as an error, never as a payload.
func StoreLoad() {
	e := env.New()
	pol := env.Policies[vx.Choice("policy", vx.Param("policies"))]
	f := e.Factory(e.Policy(pol, vx.Choice("cache", vx.Param("caches"))))
	sess, err := f.GetSession("p0")
	vx.Assert("C01.getsession", err == nil)
	kv := &kvStore{rows: map[int]ae.DataRowRecord{}}
	tick := func() {
		vx.ClockFreeze(false)
		vx.Now()
		vx.ClockFreeze(true)
	}
	payload := vx.BytesUpTo("payload", vx.Param("P"))
	keep := append([]byte(nil), payload...)
	tick()
	key, err := sess.Store(env.Ctx, payload, kv)
	vx.Assert("C01.store_ok", err == nil && key != nil)
	if err != nil {
		vx.Stop()
	}
	vx.Assert("C01.store_payload_unmodified", vx.BytesEq(payload, keep))
	vx.Assert("C01.store_persisted_one_row", len(kv.rows) == 1)
	// a failing Storer: error, nothing persisted
	kv.failNext = true
	k2, err := sess.Store(env.Ctx, []byte{9}, kv)
	vx.Assert("C01.storer_failure_is_an_error", err != nil && k2 == nil && len(kv.rows) == 1)
	// optional out-of-band revocation of the keys the row was written under
	switch vx.Choice("revoke", 3) {
	case 1:
		e.Store.Latest(env.IKID("p0")).Revoked = true
	case 2:
		e.Store.Latest(env.SKID()).Revoked = true
	}
	var reader *ae.Session
	switch vx.Choice("reader", 3) {
	case 0:
		reader = sess
	case 1:
		reader, _ = f.GetSession("p0")
	default:
		f2 := e.Factory(e.Policy(pol, vx.Choice("cache2", vx.Param("caches"))))
		reader, _ = f2.GetSession("p0")
	}
	tick()
	out, err := reader.Load(env.Ctx, key, kv)
	vx.Assert("C01.load_ok", err == nil)
	vx.Assert("C01.load_roundtrip", vx.BytesEq(out, keep))
	// a failing Loader and an unknown key: error, no payload
	kv.failNext = true
	out, err = reader.Load(env.Ctx, key, kv)
	vx.Assert("C01.loader_failure_is_an_error", err != nil && out == nil)
	out, err = reader.Load(env.Ctx, 12345, kv)
	vx.Assert("C01.unknown_key_is_an_error", err != nil && out == nil)
	vx.Reach("C01.storeload_end")
}

// LargePayloads: payload sizes far above anything the symbolic programs use (size-dependent code paths: buffer reuse,
// in-place operation above a threshold, chunking). The content is concrete - what is checked is the plumbing around
// the cipher: the record decrypts repeatedly, in the same and in another process, nothing the caller owns is modified
// and results handed out earlier do not change.
func LargePayloads() {
	e := env.New()
	pol := env.Policies[0]
	f := e.Factory(e.Policy(pol, env.CacheDefault))
	sess, _ := f.GetSession("p0")
	vx.Now()
	vx.ClockFreeze(true)
	n := []int{0, 4097, 32768, 65537}[vx.Choice("size", 4)]
	payload := make([]byte, n)
	for i := range payload {
		payload[i] = byte(i*7 + 3)
	}
	keep := append([]byte(nil), payload...)
	drr, err := sess.Encrypt(env.Ctx, payload)
	vx.Assert("C01.large_encrypt_ok", err == nil)
	if err != nil {
		vx.Stop()
	}
	vx.Assert("C01.large_payload_unmodified", vx.BytesEq(payload, keep))
	before := env.CloneDRR(drr)
	out1, err := sess.Decrypt(env.Ctx, *drr)
	vx.Assert("C01.large_decrypt_ok", vx.And(err == nil, vx.BytesEq(out1, keep)))
	vx.Assert("C01.large_record_unmodified_by_decrypt", sameLarge(before, drr))
	out2, err := sess.Decrypt(env.Ctx, *drr)
	vx.Assert("C01.large_second_decrypt_ok", vx.And(err == nil, vx.BytesEq(out2, keep)))
	vx.Assert("C01.large_first_result_unchanged", vx.BytesEq(out1, keep))
	f2 := e.Factory(e.Policy(pol, env.CacheDefault))
	s2, _ := f2.GetSession("p0")
	out3, err := s2.Decrypt(env.Ctx, *drr)
	vx.Assert("C01.large_other_process_decrypt_ok", vx.And(err == nil, vx.BytesEq(out3, keep)))
	vx.Assert("C01.large_record_unmodified_at_end", sameLarge(before, drr))
	vx.Reach("C01.large_end")
}

// sameLarge: record comparison for large payloads - the Data bytes are compared as terms (identical symbols in
// identical places; a semantic comparison of tens of thousands of ciphertext bytes is beyond the solver), the key
// part as usual.
func sameLarge(a, b *ae.DataRowRecord) bool {
	if !vx.SameTerms(a.Data, b.Data) {
		return false
	}
	ka, kb := *a, *b
	ka.Data, kb.Data = nil, nil
	return env.SameDRR(&ka, &kb)
}
