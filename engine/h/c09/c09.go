// Package c09: protected key memory is released: per call for DRKs, on Close for cached keys.
package c09

import (
	"context"
	ae "github.com/godaddy/asherah/go/appencryption"

	"verifh/h/env"
	"verifh/vx"
)

const (
	opEncrypt = iota
	opDecrypt
	opRevokeIK
	opRevokeSK
	opOtherProcess
	opReopen
	numOps
)

func capOf(cache int) int {
	switch cache {
	case env.CacheLRU1:
		return 2 // 1 IK + 1 SK
	case env.CacheSharedLRU1:
		return -1 // SK cache is the unbounded simple cache
	case env.CacheSLRU2:
		return 4
	}
	return -1
}

// callCtx: the caller's context for one operation; with ctxcancel=1 it may end while a metastore / KMS call of the
// operation is in flight (that call still succeeds).
func callCtx() (context.Context, func()) {
	if vx.Param("ctxcancel") == 1 {
		return env.CancellableCtx()
	}
	return env.Ctx, func() {}
}

// Leaks: a history of operations (with faults) on one session; then everything is closed.
func Leaks() {
	e := env.New()
	pol := env.Policies[vx.Choice("policy", vx.Param("policies"))]
	cache := env.CacheChoice()
	f := e.Factory(e.Policy(pol, cache))
	sess, _ := f.GetSession("p0")
	var recs []*ae.DataRowRecord
	L := vx.Param("L")
	tick := func() {
		vx.ClockFreeze(false)
		vx.Now()
		vx.ClockFreeze(true)
	}
	// known finding (not repairable without breaking two mock-based unit tests): the SK reference obtained at the
	// call site getOrLoadSystemKey inside intermediateKeyFromEKR is never released
	known := func(labels ...string) {
		hit := vx.CalledFrom("getOrLoadSystemKey", "intermediateKeyFromEKR") > 0
		for _, l := range labels {
			vx.KnownClass(l, "C09-sk-ref-not-released-in-intermediateKeyFromEKR", hit)
		}
	}
	after := func() {
		known("C09.nocache_all_released_per_call", "C09.live_at_most_one_per_distinct_key", "C09.live_within_capacity")
		if env.NoCaching(cache) {
			vx.Assert("C09.nocache_all_released_per_call", e.Secrets.Live() == 0)
		} else {
			rows := e.Store.Rows(env.IKID("p0")) + e.Store.Rows(env.SKID())
			vx.Assert("C09.live_at_most_one_per_distinct_key", e.Secrets.Live() <= rows)
			if c := capOf(cache); c > 0 {
				vx.Assert("C09.live_within_capacity", e.Secrets.Live() <= c)
			}
		}
		vx.Assert("C09.no_use_after_close", e.Secrets.UseAfterClose() == 0)
	}
	for i := 0; i < L; i++ {
		op := vx.Choice("op", numOps)
		if i == 0 {
			op = opEncrypt
		}
		switch op {
		case opEncrypt:
			tick()
			vx.FaultBudget("ext", vx.Param("faults"))
			vx.FaultBudget("secret", vx.Param("faults"))
			ctx, done := callCtx()
			d, err := sess.Encrypt(ctx, []byte{byte(i)})
			done()
			vx.FaultBudget("ext", 0)
			vx.FaultBudget("secret", 0)
			if err == nil {
				recs = append(recs, d)
			}
			after()
		case opDecrypt:
			if len(recs) > 0 {
				tick()
				vx.FaultBudget("ext", vx.Param("faults"))
				vx.FaultBudget("secret", vx.Param("faults"))
				ctx, done := callCtx()
				sess.Decrypt(ctx, *recs[vx.Choice("j", len(recs))])
				done()
				vx.FaultBudget("ext", 0)
				vx.FaultBudget("secret", 0)
				after()
			}
		case opRevokeIK:
			if r := e.Store.Latest(env.IKID("p0")); r != nil {
				r.Revoked = true
			}
		case opRevokeSK:
			if r := e.Store.Latest(env.SKID()); r != nil {
				r.Revoked = true
			}
		case opOtherProcess:
			e2 := *e
			e2.Secrets = &env.Tracker{}
			f2 := e2.Factory(e.Policy(pol, env.CacheDefault))
			s2, _ := f2.GetSession("p0")
			tick()
			s2.Encrypt(env.Ctx, []byte{9})
			s2.Close()
			f2.Close()
			vx.Assert("C09.other_process_released_all", e2.Secrets.Live() == 0)
		case opReopen:
			sess.Close()
			sess, _ = f.GetSession("p0")
			after()
		}
	}
	sess.Close()
	f.Close()
	known("C09.all_released_after_close", "C09.each_secret_released_exactly_once")
	vx.Assert("C09.all_released_after_close", e.Secrets.Live() == 0)
	ok := true
	for _, s := range e.Secrets.Secrets {
		if s.CloseCount != 1 {
			ok = false
		}
	}
	vx.Assert("C09.each_secret_released_exactly_once", ok)
	vx.Assert("C09.no_use_after_close", e.Secrets.UseAfterClose() == 0)
	vx.Reach("C09.end")
}
