// Package c13: the in-memory metastore is an insert-only, read-your-writes key table.
package c13

import (
	ae "github.com/godaddy/asherah/go/appencryption"
	"github.com/godaddy/asherah/go/appencryption/pkg/persistence"

	"verifh/h/env"
	"verifh/vx"
)

type ref struct {
	id      string
	created int64
	rec     *ae.EnvelopeKeyRecord
	snap    ae.EnvelopeKeyRecord
	key     []byte
}

// Memory: a symbolic program of Store/Load/LoadLatest against a reference table.
func Memory() {
	m := persistence.NewMemoryMetastore()
	ids := []string{"k1", "k2"}
	var table []ref
	find := func(id string, c int64) *ref {
		for i := range table {
			if table[i].id == id && table[i].created == c {
				return &table[i]
			}
		}
		return nil
	}
	L := vx.Param("L")
	for i := 0; i < L; i++ {
		id := ids[vx.Choice("id", len(ids))]
		switch vx.Choice("op", 3) {
		case 0: // Store
			c := vx.Int64("created")
			rec := &ae.EnvelopeKeyRecord{ID: id, Created: c, EncryptedKey: vx.Bytes("key", 2), Revoked: vx.Bool("revoked")}
			if vx.Choice("parent", 2) == 1 {
				rec.ParentKeyMeta = &ae.KeyMeta{ID: "parent", Created: vx.Int64("pc")}
			}
			existed := find(id, c) != nil
			ok, err := m.Store(env.Ctx, id, c, rec)
			vx.Assert("C13.store_no_error", err == nil)
			vx.Assert("C13.store_true_iff_absent", ok == !existed)
			if !existed {
				table = append(table, ref{id, c, rec, *rec, append([]byte(nil), rec.EncryptedKey...)})
			}
			vx.Reach("C13.stored")
		case 1: // Load
			c := vx.Int64("lc")
			got, err := m.Load(env.Ctx, id, c)
			vx.Assert("C13.load_no_error", err == nil)
			r := find(id, c)
			if r == nil {
				vx.Assert("C13.load_absent_is_nil", got == nil)
			} else {
				vx.Assert("C13.load_returns_stored", got == r.rec)
				vx.Reach("C13.load_hit")
			}
		case 2: // LoadLatest
			got, err := m.LoadLatest(env.Ctx, id)
			vx.Assert("C13.latest_no_error", err == nil)
			var best *ref
			for j := range table {
				if table[j].id == id && (best == nil || table[j].created > best.created) {
					best = &table[j]
				}
			}
			if best == nil {
				vx.Assert("C13.latest_absent_is_nil", got == nil)
			} else {
				vx.Assert("C13.latest_is_greatest_created", got == best.rec)
				vx.Reach("C13.latest_hit")
			}
		}
		// every stored record is intact: same object, every field as stored
		for j := range table {
			r := &table[j]
			ok := vx.And(r.rec.Created == r.snap.Created, vx.BytesEq(r.rec.EncryptedKey, r.key))
			ok = vx.And(ok, r.rec.Revoked == r.snap.Revoked)
			ok = vx.And(ok, r.rec.ID == r.snap.ID)
			if (r.rec.ParentKeyMeta == nil) != (r.snap.ParentKeyMeta == nil) {
				ok = false
			}
			vx.Assert("C13.stored_record_never_changes", ok)
		}
	}
	vx.Reach("C13.end")
}
