package c13

import (
	"strconv"
	"strings"

	"github.com/aws/aws-sdk-go/aws"
	"github.com/aws/aws-sdk-go/aws/awserr"
	"github.com/aws/aws-sdk-go/aws/client"
	"github.com/aws/aws-sdk-go/aws/request"
	"github.com/aws/aws-sdk-go/service/dynamodb"

	v1 "github.com/godaddy/asherah/go/appencryption/plugins/aws-v1/persistence"

	"verifh/vx"
)

// ddbV1 is the environment model of the DynamoDB service behind the aws-v1 metastore: one table with the documented
// key schema (partition key "Id" of type S, sort key "Created" of type N), GetItem / Query / PutItem with the
// documented semantics of the request fields the metastore may set:
//
//   - PutItem without a ConditionExpression REPLACES an existing item with the same primary key; with
//     attribute_not_exists(<attr>) it fails with ConditionalCheckFailedException when an item with that primary key
//     exists and has the attribute;
//   - GetItem / Query with ConsistentRead absent or false are eventually consistent: they may be served from any
//     earlier state of the table (a prefix of the completed writes);
//   - Query returns the items of one partition ordered by the sort key, ascending unless ScanIndexForward is false,
//     cut to Limit items when Limit is set; KeyConditionExpression must be an equality on the partition key;
//   - ProjectionExpression / ExpressionAttributeNames / ExpressionAttributeValues are resolved as documented;
//   - any malformed request is answered with a ValidationException.
type ddbV1 struct {
	table  string
	rows   []ddbRowV1 // in order of insertion; a replaced item keeps its position
	writes int
	// log of the table after each completed write, for eventually consistent reads
	history [][]ddbRowV1
	calls   int
}

type ddbRowV1 struct {
	id      string
	created int64
	item    map[string]*dynamodb.AttributeValue
}

func (d *ddbV1) validation(msg string) error {
	return awserr.New("ValidationException", msg, nil)
}

func (d *ddbV1) snapshot(consistent *bool) []ddbRowV1 {
	if consistent != nil && *consistent {
		return d.rows
	}
	// eventually consistent read: any earlier state
	k := vx.Choice("stale_read_state", len(d.history)+1)
	if k == len(d.history) {
		return d.rows
	}
	vx.Tag("stale_read", "yes")
	return d.history[k]
}

func (d *ddbV1) keyOf(m map[string]*dynamodb.AttributeValue, exact bool) (string, int64, error) {
	idAV, ok1 := m["Id"]
	cAV, ok2 := m["Created"]
	if !ok1 || !ok2 || idAV == nil || cAV == nil || idAV.S == nil || cAV.N == nil {
		return "", 0, d.validation("The provided key element does not match the schema")
	}
	if exact && len(m) != 2 {
		return "", 0, d.validation("The provided key element does not match the schema")
	}
	c, err := strconv.ParseInt(*cAV.N, 10, 64)
	if err != nil {
		return "", 0, d.validation("The parameter cannot be converted to a numeric value")
	}
	return *idAV.S, c, nil
}

func (d *ddbV1) project(item map[string]*dynamodb.AttributeValue, proj *string, names map[string]*string) (map[string]*dynamodb.AttributeValue, error) {
	if proj == nil {
		return item, nil
	}
	out := map[string]*dynamodb.AttributeValue{}
	for _, part := range strings.Split(*proj, ",") {
		p := strings.TrimSpace(part)
		if strings.HasPrefix(p, "#") {
			n, ok := names[p]
			if !ok || n == nil {
				return nil, d.validation("An expression attribute name used in the document path is not defined: " + p)
			}
			p = *n
		}
		if v, ok := item[p]; ok {
			out[p] = v
		}
	}
	return out, nil
}

func (d *ddbV1) GetItemWithContext(_ aws.Context, in *dynamodb.GetItemInput, _ ...request.Option) (*dynamodb.GetItemOutput, error) {
	d.calls++
	if vx.Fault("read", "ddb.call") {
		return nil, awserr.New("RequestError", "send request failed", nil)
	}
	if in.TableName == nil || *in.TableName != d.table {
		return nil, awserr.New(dynamodb.ErrCodeResourceNotFoundException, "Requested resource not found", nil)
	}
	id, c, err := d.keyOf(in.Key, true)
	if err != nil {
		return nil, err
	}
	for _, r := range d.snapshot(in.ConsistentRead) {
		if r.id == id && r.created == c {
			item, err := d.project(r.item, in.ProjectionExpression, in.ExpressionAttributeNames)
			if err != nil {
				return nil, err
			}
			return &dynamodb.GetItemOutput{Item: item}, nil
		}
	}
	return &dynamodb.GetItemOutput{}, nil
}

func (d *ddbV1) QueryWithContext(_ aws.Context, in *dynamodb.QueryInput, _ ...request.Option) (*dynamodb.QueryOutput, error) {
	d.calls++
	if vx.Fault("read", "ddb.call") {
		return nil, awserr.New("RequestError", "send request failed", nil)
	}
	if in.TableName == nil || *in.TableName != d.table {
		return nil, awserr.New(dynamodb.ErrCodeResourceNotFoundException, "Requested resource not found", nil)
	}
	if in.KeyConditionExpression == nil {
		return nil, d.validation("Either the KeyConditions or KeyConditionExpression parameter must be specified in the request.")
	}
	// only "<partition key> = <value>" is a legal key condition without a sort-key clause
	parts := strings.Split(*in.KeyConditionExpression, " = ")
	if len(parts) != 2 {
		return nil, d.validation("Invalid KeyConditionExpression")
	}
	name, val := strings.TrimSpace(parts[0]), strings.TrimSpace(parts[1])
	if strings.HasPrefix(name, "#") {
		n, ok := in.ExpressionAttributeNames[name]
		if !ok || n == nil {
			return nil, d.validation("An expression attribute name used in the document path is not defined: " + name)
		}
		name = *n
	}
	if name != "Id" {
		return nil, d.validation("Query condition missed key schema element: Id")
	}
	v, ok := in.ExpressionAttributeValues[val]
	if !ok || v == nil || v.S == nil {
		return nil, d.validation("An expression attribute value used in expression is not defined or has the wrong type: " + val)
	}
	id := *v.S
	var hits []ddbRowV1
	for _, r := range d.snapshot(in.ConsistentRead) {
		if r.id == id {
			hits = append(hits, r)
		}
	}
	// order by sort key
	desc := in.ScanIndexForward != nil && !*in.ScanIndexForward
	for i := 1; i < len(hits); i++ {
		for j := i; j > 0; j-- {
			swap := hits[j].created < hits[j-1].created
			if desc {
				swap = hits[j].created > hits[j-1].created
			}
			if !swap {
				break
			}
			hits[j], hits[j-1] = hits[j-1], hits[j]
		}
	}
	if in.Limit != nil {
		if *in.Limit < 1 {
			return nil, d.validation("Limit must be >= 1")
		}
		if int64(len(hits)) > *in.Limit {
			hits = hits[:*in.Limit]
		}
	}
	out := &dynamodb.QueryOutput{}
	for _, r := range hits {
		item, err := d.project(r.item, in.ProjectionExpression, in.ExpressionAttributeNames)
		if err != nil {
			return nil, err
		}
		out.Items = append(out.Items, item)
	}
	return out, nil
}

func (d *ddbV1) PutItemWithContext(_ aws.Context, in *dynamodb.PutItemInput, _ ...request.Option) (*dynamodb.PutItemOutput, error) {
	d.calls++
	if in.TableName == nil || *in.TableName != d.table {
		return nil, awserr.New(dynamodb.ErrCodeResourceNotFoundException, "Requested resource not found", nil)
	}
	id, c, err := d.keyOf(in.Item, false)
	if err != nil {
		return nil, err
	}
	idx := -1
	for i, r := range d.rows {
		if r.id == id && r.created == c {
			idx = i
		}
	}
	if in.ConditionExpression != nil {
		ce := strings.TrimSpace(*in.ConditionExpression)
		if !strings.HasPrefix(ce, "attribute_not_exists(") || !strings.HasSuffix(ce, ")") {
			return nil, d.validation("Invalid ConditionExpression (the model knows attribute_not_exists only)")
		}
		attr := strings.TrimSuffix(strings.TrimPrefix(ce, "attribute_not_exists("), ")")
		if strings.HasPrefix(attr, "#") {
			n, ok := in.ExpressionAttributeNames[attr]
			if !ok || n == nil {
				return nil, d.validation("An expression attribute name used in the document path is not defined: " + attr)
			}
			attr = *n
		}
		if idx >= 0 {
			if _, has := d.rows[idx].item[attr]; has {
				return nil, awserr.New(dynamodb.ErrCodeConditionalCheckFailedException, "The conditional request failed", nil)
			}
		}
	}
	d.history = append(d.history, append([]ddbRowV1(nil), d.rows...))
	row := ddbRowV1{id: id, created: c, item: in.Item}
	if idx >= 0 {
		d.rows[idx] = row // unconditional put replaces the item
	} else {
		d.rows = append(d.rows, row)
	}
	d.writes++
	return &dynamodb.PutItemOutput{}, nil
}

// cfgProvider stands for the AWS session: it only names the region.
type cfgProvider struct{ region string }

func (c cfgProvider) ClientConfig(string, ...*aws.Config) client.Config {
	return client.Config{Config: &aws.Config{Region: aws.String(c.region)}}
}

// DynamoV1: the aws-v1 DynamoDB metastore over the service model.
func DynamoV1() {
	tables := []string{"EncryptionKey", "CustomTable"}
	tn := tables[vx.Choice("table", 2)]
	db := &ddbV1{table: tn}
	opts := []v1.DynamoDBMetastoreOption{v1.WithClient(db)}
	if tn != "EncryptionKey" {
		opts = append(opts, v1.WithTableName(tn))
	}
	suffix := vx.Choice("region_suffix", 2) == 1
	if suffix {
		opts = append(opts, v1.WithDynamoDBRegionSuffix(true))
	}
	m := v1.NewDynamoDBMetastore(cfgProvider{"us-west-2"}, opts...)
	want := ""
	if suffix {
		want = "us-west-2"
	}
	vx.Assert("C13.ddbv1.region_suffix_setting", m.GetRegionSuffix() == want)
	vx.Assert("C13.ddbv1.table_name_setting", m.GetTableName() == tn)
	program(m, "C13.ddbv1", []int{2, 3}, nil)
}
