package c13

import (
	ae "github.com/godaddy/asherah/go/appencryption"

	"verifh/h/env"
	"verifh/vx"
)

// row is the reference table of the generic program: what was accepted by Store, by value.
type row struct {
	id      string
	created int64 // the key the record was stored under
	recC    int64 // the record's own Created field
	key     []byte
	revoked bool
	hasPM   bool
	pmID    string
	pmC     int64
}

func sameRecord(got *ae.EnvelopeKeyRecord, r *row) bool {
	ok := vx.And(got.Created == r.recC, vx.BytesEq(got.EncryptedKey, r.key))
	ok = vx.And(ok, got.Revoked == r.revoked)
	if (got.ParentKeyMeta != nil) != r.hasPM {
		return false
	}
	if r.hasPM {
		ok = vx.And(ok, vx.And(got.ParentKeyMeta.ID == r.pmID, got.ParentKeyMeta.Created == r.pmC))
	}
	return ok
}

func readFaults() int { return vx.Faulted("read", "sql.fetch") + vx.Faulted("read", "ddb.call") }

// program drives a symbolic sequence of Store/Load/LoadLatest against m and checks it against a reference table
// kept by value (the marshalling metastores hand back fresh objects). afterOp, if set, runs after each operation.
func program(m ae.Metastore, tag string, keyLens []int, afterOp func()) {
	ids := []string{"_SK_svc_prod", "_IK_p_svc_prod"}
	var table []row
	find := func(id string, c int64) *row {
		for i := range table {
			if table[i].id == id && table[i].created == c {
				return &table[i]
			}
		}
		return nil
	}
	L := vx.Param("L")
	for i := 0; i < L; i++ {
		id := ids[vx.Choice("id", len(ids))]
		switch vx.Choice("op", 3) {
		case 0: // Store
			c := vx.Timestamp("created")
			klen := keyLens[vx.Choice("keylen", len(keyLens))]
			// the record's own Created normally equals the key it is stored under; the table must be keyed by the
			// argument either way
			// (an unconstrained symbolic stamp: equal to the key or not, without a fork)
			rc := vx.Timestamp("rec_created")
			rec := &ae.EnvelopeKeyRecord{ID: id, Created: rc, EncryptedKey: vx.Bytes("key", klen), Revoked: vx.Bool("revoked")}
			if vx.Choice("parent", 2) == 1 {
				rec.ParentKeyMeta = &ae.KeyMeta{ID: "_SK_svc_prod", Created: vx.Timestamp("pc")}
			}
			r := row{id: id, created: c, recC: rc, key: append([]byte(nil), rec.EncryptedKey...), revoked: rec.Revoked}
			if rec.ParentKeyMeta != nil {
				r.hasPM, r.pmID, r.pmC = true, rec.ParentKeyMeta.ID, rec.ParentKeyMeta.Created
			}
			existed := find(id, c) != nil
			ok, err := m.Store(env.Ctx, id, c, rec)
			if existed {
				// the interface allows "false" with or without an error for a duplicate, never "true"
				vx.Assert(tag+".duplicate_store_reports_false", !ok)
			} else {
				if err != nil {
					vx.Tag("store_error", err.Error())
				}
				vx.Assert(tag+".store_no_error", err == nil)
				vx.Assert(tag+".store_true_when_absent", ok)
				table = append(table, r)
			}
			vx.Reach(tag + ".stored")
		case 1: // Load
			c := vx.Timestamp("lc")
			// readfaults=1: fetching the row may fail after the statement was accepted; a failed read is an error -
			// an answer given without an error is held to the same obligations as ever (a stored record is never
			// reported absent)
			f0 := readFaults()
			vx.FaultBudget("read", vx.Param("readfaults"))
			got, err := m.Load(env.Ctx, id, c)
			vx.FaultBudget("read", 0)
			faulted := readFaults() > f0
			if err != nil {
				vx.Tag("load_error", err.Error())
			}
			vx.Assert(tag+".load_no_error", err == nil || faulted)
			if err != nil {
				vx.Reach(tag + ".read_fault_reported")
				continue
			}
			r := find(id, c)
			if r == nil {
				vx.Assert(tag+".load_absent_is_nil", got == nil)
			} else {
				if got == nil {
					vx.Assert(tag+".load_finds_stored", false)
				} else {
					vx.Assert(tag+".load_returns_stored_fields", sameRecord(got, r))
					vx.Reach(tag + ".load_hit")
				}
			}
		case 2: // LoadLatest
			f0 := readFaults()
			vx.FaultBudget("read", vx.Param("readfaults"))
			got, err := m.LoadLatest(env.Ctx, id)
			vx.FaultBudget("read", 0)
			faulted := readFaults() > f0
			if err != nil {
				vx.Tag("latest_error", err.Error())
			}
			vx.Assert(tag+".latest_no_error", err == nil || faulted)
			if err != nil {
				vx.Reach(tag + ".read_fault_reported")
				continue
			}
			var best *row
			for j := range table {
				if table[j].id == id && (best == nil || table[j].created > best.created) {
					best = &table[j]
				}
			}
			if best == nil {
				vx.Assert(tag+".latest_absent_is_nil", got == nil)
			} else {
				if got == nil {
					vx.Assert(tag+".latest_finds_stored", false)
				} else {
					vx.Assert(tag+".latest_is_greatest_created", sameRecord(got, best))
					vx.Reach(tag + ".latest_hit")
				}
			}
		}
		if afterOp != nil {
			afterOp()
		}
	}
	vx.Reach(tag + ".end")
}
