package c13

import (
	"context"
	"errors"
	"strconv"
	"strings"

	"github.com/aws/aws-sdk-go-v2/aws"
	"github.com/aws/aws-sdk-go-v2/service/dynamodb"
	"github.com/aws/aws-sdk-go-v2/service/dynamodb/types"

	v2 "github.com/godaddy/asherah/go/appencryption/plugins/aws-v2/dynamodb/metastore"

	"verifh/vx"
)

// ddbV2 is the same DynamoDB service model as ddbV1 (see there for the semantics), for the aws-sdk-go-v2 API.
type ddbV2 struct {
	table   string
	region  string
	rows    []ddbRowV2
	history [][]ddbRowV2
	calls   int
}

type ddbRowV2 struct {
	id      string
	created int64
	item    map[string]types.AttributeValue
}

var errValidationV2 = errors.New("ValidationException")

func (d *ddbV2) Options() dynamodb.Options { return dynamodb.Options{Region: d.region} }

func (d *ddbV2) snapshot(consistent *bool) []ddbRowV2 {
	if consistent != nil && *consistent {
		return d.rows
	}
	k := vx.Choice("stale_read_state", len(d.history)+1)
	if k == len(d.history) {
		return d.rows
	}
	vx.Tag("stale_read", "yes")
	return d.history[k]
}

func (d *ddbV2) keyOf(m map[string]types.AttributeValue, exact bool) (string, int64, error) {
	idAV, ok1 := m["Id"].(*types.AttributeValueMemberS)
	cAV, ok2 := m["Created"].(*types.AttributeValueMemberN)
	if !ok1 || !ok2 || idAV == nil || cAV == nil {
		return "", 0, errValidationV2
	}
	if exact && len(m) != 2 {
		return "", 0, errValidationV2
	}
	c, err := strconv.ParseInt(cAV.Value, 10, 64)
	if err != nil {
		return "", 0, errValidationV2
	}
	return idAV.Value, c, nil
}

func (d *ddbV2) project(item map[string]types.AttributeValue, proj *string, names map[string]string) (map[string]types.AttributeValue, error) {
	if proj == nil {
		return item, nil
	}
	out := map[string]types.AttributeValue{}
	for _, part := range strings.Split(*proj, ",") {
		p := strings.TrimSpace(part)
		if strings.HasPrefix(p, "#") {
			n, ok := names[p]
			if !ok {
				return nil, errValidationV2
			}
			p = n
		}
		if v, ok := item[p]; ok {
			out[p] = v
		}
	}
	return out, nil
}

func (d *ddbV2) GetItem(_ context.Context, in *dynamodb.GetItemInput, _ ...func(*dynamodb.Options)) (*dynamodb.GetItemOutput, error) {
	d.calls++
	if vx.Fault("read", "ddb.call") {
		return nil, errors.New("operation error DynamoDB: request send failed")
	}
	if in.TableName == nil || *in.TableName != d.table {
		return nil, &types.ResourceNotFoundException{Message: aws.String("Requested resource not found")}
	}
	id, c, err := d.keyOf(in.Key, true)
	if err != nil {
		return nil, err
	}
	for _, r := range d.snapshot(in.ConsistentRead) {
		if r.id == id && r.created == c {
			item, err := d.project(r.item, in.ProjectionExpression, in.ExpressionAttributeNames)
			if err != nil {
				return nil, err
			}
			return &dynamodb.GetItemOutput{Item: item}, nil
		}
	}
	return &dynamodb.GetItemOutput{}, nil
}

func (d *ddbV2) Query(_ context.Context, in *dynamodb.QueryInput, _ ...func(*dynamodb.Options)) (*dynamodb.QueryOutput, error) {
	d.calls++
	if vx.Fault("read", "ddb.call") {
		return nil, errors.New("operation error DynamoDB: request send failed")
	}
	if in.TableName == nil || *in.TableName != d.table {
		return nil, &types.ResourceNotFoundException{Message: aws.String("Requested resource not found")}
	}
	if in.KeyConditionExpression == nil {
		return nil, errValidationV2
	}
	parts := strings.Split(*in.KeyConditionExpression, " = ")
	if len(parts) != 2 {
		return nil, errValidationV2
	}
	name, val := strings.TrimSpace(parts[0]), strings.TrimSpace(parts[1])
	if strings.HasPrefix(name, "#") {
		n, ok := in.ExpressionAttributeNames[name]
		if !ok {
			return nil, errValidationV2
		}
		name = n
	}
	if name != "Id" {
		return nil, errValidationV2
	}
	v, ok := in.ExpressionAttributeValues[val].(*types.AttributeValueMemberS)
	if !ok || v == nil {
		return nil, errValidationV2
	}
	id := v.Value
	var hits []ddbRowV2
	for _, r := range d.snapshot(in.ConsistentRead) {
		if r.id == id {
			hits = append(hits, r)
		}
	}
	desc := in.ScanIndexForward != nil && !*in.ScanIndexForward
	for i := 1; i < len(hits); i++ {
		for j := i; j > 0; j-- {
			swap := hits[j].created < hits[j-1].created
			if desc {
				swap = hits[j].created > hits[j-1].created
			}
			if !swap {
				break
			}
			hits[j], hits[j-1] = hits[j-1], hits[j]
		}
	}
	if in.Limit != nil {
		if *in.Limit < 1 {
			return nil, errValidationV2
		}
		if int32(len(hits)) > *in.Limit {
			hits = hits[:*in.Limit]
		}
	}
	out := &dynamodb.QueryOutput{}
	for _, r := range hits {
		item, err := d.project(r.item, in.ProjectionExpression, in.ExpressionAttributeNames)
		if err != nil {
			return nil, err
		}
		out.Items = append(out.Items, item)
	}
	return out, nil
}

func (d *ddbV2) PutItem(_ context.Context, in *dynamodb.PutItemInput, _ ...func(*dynamodb.Options)) (*dynamodb.PutItemOutput, error) {
	d.calls++
	if in.TableName == nil || *in.TableName != d.table {
		return nil, &types.ResourceNotFoundException{Message: aws.String("Requested resource not found")}
	}
	id, c, err := d.keyOf(in.Item, false)
	if err != nil {
		return nil, err
	}
	idx := -1
	for i, r := range d.rows {
		if r.id == id && r.created == c {
			idx = i
		}
	}
	if in.ConditionExpression != nil {
		ce := strings.TrimSpace(*in.ConditionExpression)
		if !strings.HasPrefix(ce, "attribute_not_exists(") || !strings.HasSuffix(ce, ")") {
			return nil, errValidationV2
		}
		attr := strings.TrimSuffix(strings.TrimPrefix(ce, "attribute_not_exists("), ")")
		if strings.HasPrefix(attr, "#") {
			n, ok := in.ExpressionAttributeNames[attr]
			if !ok {
				return nil, errValidationV2
			}
			attr = n
		}
		if idx >= 0 {
			if _, has := d.rows[idx].item[attr]; has {
				return nil, &types.ConditionalCheckFailedException{Message: aws.String("The conditional request failed")}
			}
		}
	}
	d.history = append(d.history, append([]ddbRowV2(nil), d.rows...))
	row := ddbRowV2{id: id, created: c, item: in.Item}
	if idx >= 0 {
		d.rows[idx] = row
	} else {
		d.rows = append(d.rows, row)
	}
	return &dynamodb.PutItemOutput{}, nil
}

// DynamoV2: the aws-v2 DynamoDB metastore over the service model.
func DynamoV2() {
	tables := []string{"EncryptionKey", "CustomTable"}
	tn := tables[vx.Choice("table", 2)]
	db := &ddbV2{table: tn, region: "us-west-2"}
	opts := []v2.Option{v2.WithDynamoDBClient(db)}
	if tn != "EncryptionKey" {
		opts = append(opts, v2.WithTableName(tn))
	}
	suffix := vx.Choice("region_suffix", 2) == 1
	if suffix {
		opts = append(opts, v2.WithRegionSuffix(true))
	}
	m, err := v2.NewDynamoDB(opts...)
	vx.Assert("C13.ddbv2.constructed", err == nil && m != nil)
	if err != nil || m == nil {
		vx.Stop()
	}
	want := ""
	if suffix {
		want = "us-west-2"
	}
	vx.Assert("C13.ddbv2.region_suffix_setting", m.GetRegionSuffix() == want)
	vx.Assert("C13.ddbv2.table_name_setting", m.GetTableName() == tn)
	program(m, "C13.ddbv2", []int{2, 3}, nil)
}
