package c13

import (
	"github.com/godaddy/asherah/go/appencryption/pkg/persistence"

	"verifh/vx"
)

// SQL: the RDBMS metastore over the executor's relational-database model, in every placeholder dialect.
func SQL() {
	types := []persistence.SQLMetastoreDBType{persistence.MySQL, persistence.Postgres, persistence.Oracle}
	k := vx.Choice("dialect", 3)
	db := vx.SQLDB(string(types[k]))
	var m *persistence.SQLMetastore
	if k == 0 && vx.Choice("default_options", 2) == 0 {
		m = persistence.NewSQLMetastore(db)
	} else {
		m = persistence.NewSQLMetastore(db, persistence.WithSQLMetastoreDBType(types[k]))
	}
	program(m, "C13.sql", []int{2}, nil)
}
