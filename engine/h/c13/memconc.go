package c13

import (
	ae "github.com/godaddy/asherah/go/appencryption"
	"github.com/godaddy/asherah/go/appencryption/pkg/persistence"

	"verifh/h/env"
	"verifh/vx"
)

// MemoryConcurrent: two writers store different records under the same (id, created) at the same time, under every
// schedule within the pre-emption bound: exactly one is told its record was stored, the row holds that writer's
// record, and a reader running alongside sees either nothing or a complete record of one of the writers.
func MemoryConcurrent() {
	m := persistence.NewMemoryMetastore()
	id := "_IK_p_svc_prod"
	c := vx.Timestamp("created")
	recs := []*ae.EnvelopeKeyRecord{
		{ID: id, Created: c, EncryptedKey: []byte{1, 1}},
		{ID: id, Created: c, EncryptedKey: []byte{2, 2}, Revoked: true},
	}
	ok := make([]bool, 2)
	done := make(chan int, 3)
	for i := 0; i < 2; i++ {
		go func(i int) {
			var err error
			ok[i], err = m.Store(env.Ctx, id, c, recs[i])
			vx.Assert("C13.memconc_store_no_error", err == nil)
			done <- 1
		}(i)
	}
	go func() {
		got, err := m.Load(env.Ctx, id, c)
		vx.Assert("C13.memconc_load_no_error", err == nil)
		if got != nil {
			vx.Assert("C13.memconc_reader_sees_a_complete_record", (got.EncryptedKey[0] == 1 && !got.Revoked) || (got.EncryptedKey[0] == 2 && got.Revoked))
		}
		done <- 1
	}()
	for i := 0; i < 3; i++ {
		<-done
	}
	vx.Assert("C13.memconc_exactly_one_writer_told_stored", ok[0] != ok[1])
	got, err := m.Load(env.Ctx, id, c)
	vx.Assert("C13.memconc_row_present", err == nil && got != nil)
	if got != nil {
		w := 0
		if ok[1] {
			w = 1
		}
		vx.Assert("C13.memconc_row_holds_the_winner", got.EncryptedKey[0] == recs[w].EncryptedKey[0] && got.Revoked == recs[w].Revoked)
	}
	latest, err := m.LoadLatest(env.Ctx, id)
	vx.Assert("C13.memconc_latest_is_the_row", err == nil && latest != nil && latest.Created == c)
	vx.Reach("C13.memconc_end")
}
