package c13

import (
	"encoding/base64"
	"encoding/json"
	"strconv"

	ddb2types "github.com/aws/aws-sdk-go-v2/service/dynamodb/types"
	"github.com/aws/aws-sdk-go/aws"
	ddb1 "github.com/aws/aws-sdk-go/service/dynamodb"

	ae "github.com/godaddy/asherah/go/appencryption"
	"github.com/godaddy/asherah/go/appencryption/pkg/persistence"
	v1 "github.com/godaddy/asherah/go/appencryption/plugins/aws-v1/persistence"
	v2 "github.com/godaddy/asherah/go/appencryption/plugins/aws-v2/dynamodb/metastore"

	"verifh/h/env"
	"verifh/vx"
)

// Stored formats (C18): the item / row an SDK metastore writes is the documented, cross-language one, and an item /
// row written from the documentation by an independent implementation is read back field for field.
//
// Documented DynamoDB item (docs/Metastore.md for the key schema; the KeyRecord document is the key record's JSON
// as a DynamoDB map, as written by every language implementation):
//   Id        S   key id                         (partition key)
//   Created   N   unix seconds                   (sort key)
//   KeyRecord M { Key: S standard padded base64, Created: N,
//                 ParentKeyMeta: M { KeyId: S, Created: N }   -- intermediate keys only
//                 Revoked: BOOL                               -- only when true }
// Documented RDBMS row: id VARCHAR, created TIMESTAMP (whole seconds), key_record TEXT = the key record's JSON.

func symRecord(id string, klen int) (*ae.EnvelopeKeyRecord, int64) {
	c := vx.Timestamp("created")
	rec := &ae.EnvelopeKeyRecord{ID: id, Created: c, EncryptedKey: vx.Bytes("key", klen), Revoked: vx.Bool("revoked")}
	if vx.Choice("parent", 2) == 1 {
		rec.ParentKeyMeta = &ae.KeyMeta{ID: "_SK_svc_prod", Created: vx.Timestamp("pc")}
	}
	return rec, c
}

func rowOf(id string, c int64, rec *ae.EnvelopeKeyRecord) *row {
	r := &row{id: id, created: c, recC: rec.Created, key: append([]byte(nil), rec.EncryptedKey...), revoked: rec.Revoked}
	if rec.ParentKeyMeta != nil {
		r.hasPM, r.pmID, r.pmC = true, rec.ParentKeyMeta.ID, rec.ParentKeyMeta.Created
	}
	return r
}

func readsBack(m ae.Metastore, tag, id string, c int64, want *row) {
	got, err := m.Load(env.Ctx, id, c)
	vx.Assert(tag+".sdk_loads_reference_item", err == nil && got != nil)
	if err == nil && got != nil {
		vx.Assert(tag+".sdk_recovers_every_field", sameRecord(got, want))
	}
	got, err = m.LoadLatest(env.Ctx, id)
	vx.Assert(tag+".sdk_loads_latest_reference_item", err == nil && got != nil)
	if err == nil && got != nil {
		vx.Assert(tag+".sdk_recovers_every_field_latest", sameRecord(got, want))
	}
}

// ItemsV1: aws-v1 DynamoDB item format, both directions.
func ItemsV1() {
	db := &ddbV1{table: "EncryptionKey"}
	m := v1.NewDynamoDBMetastore(cfgProvider{"us-west-2"}, v1.WithClient(db))
	id := "_IK_p_svc_prod"
	klen := []int{1, 2, 3}[vx.Choice("keylen", 3)]
	rec, c := symRecord(id, klen)
	want := rowOf(id, c, rec)
	if vx.Choice("direction", 2) == 0 {
		// SDK writes, reference reads
		ok, err := m.Store(env.Ctx, id, c, rec)
		vx.Assert("C18.ddbv1.store_ok", ok && err == nil)
		if len(db.rows) != 1 {
			vx.Assert("C18.ddbv1.one_item_written", false)
			vx.Stop()
		}
		it := db.rows[0].item
		good := len(it) == 3 && it["Id"] != nil && it["Created"] != nil && it["KeyRecord"] != nil
		vx.Assert("C18.ddbv1.item_has_exactly_Id_Created_KeyRecord", good)
		if !good {
			vx.Stop()
		}
		vx.Assert("C18.ddbv1.Id_is_S_key_id", it["Id"].S != nil && *it["Id"].S == id)
		vx.Assert("C18.ddbv1.Created_is_N_unix_seconds", it["Created"].N != nil && *it["Created"].N == strconv.FormatInt(c, 10))
		kr := it["KeyRecord"].M
		vx.Assert("C18.ddbv1.KeyRecord_is_M", kr != nil)
		if kr == nil {
			vx.Stop()
		}
		n := 2
		vx.Assert("C18.ddbv1.Key_is_S_std_base64", kr["Key"] != nil && kr["Key"].S != nil &&
			*kr["Key"].S == base64.StdEncoding.EncodeToString(want.key))
		vx.Assert("C18.ddbv1.KeyRecord_Created_is_N", kr["Created"] != nil && kr["Created"].N != nil && *kr["Created"].N == strconv.FormatInt(c, 10))
		if want.hasPM {
			n++
			pm := kr["ParentKeyMeta"]
			okpm := pm != nil && pm.M != nil && len(pm.M) == 2 && pm.M["KeyId"] != nil && pm.M["Created"] != nil
			vx.Assert("C18.ddbv1.ParentKeyMeta_is_M_KeyId_Created", okpm)
			if okpm {
				vx.Assert("C18.ddbv1.ParentKeyMeta_values", pm.M["KeyId"].S != nil && *pm.M["KeyId"].S == want.pmID &&
					pm.M["Created"].N != nil && *pm.M["Created"].N == strconv.FormatInt(want.pmC, 10))
			}
		} else {
			vx.Assert("C18.ddbv1.no_ParentKeyMeta_for_a_key_without_parent", kr["ParentKeyMeta"] == nil)
		}
		if want.revoked {
			n++
			vx.Assert("C18.ddbv1.Revoked_is_BOOL_true", kr["Revoked"] != nil && kr["Revoked"].BOOL != nil && *kr["Revoked"].BOOL)
		} else {
			vx.Assert("C18.ddbv1.Revoked_absent_when_false", kr["Revoked"] == nil)
		}
		vx.Assert("C18.ddbv1.KeyRecord_has_no_other_attribute", len(kr) == n)
		vx.Reach("C18.ddbv1.sdk_wrote")
		return
	}
	// reference writes, SDK reads
	kr := map[string]*ddb1.AttributeValue{
		"Key":     {S: aws.String(base64.StdEncoding.EncodeToString(want.key))},
		"Created": {N: aws.String(strconv.FormatInt(c, 10))},
	}
	if want.hasPM {
		kr["ParentKeyMeta"] = &ddb1.AttributeValue{M: map[string]*ddb1.AttributeValue{
			"KeyId":   {S: aws.String(want.pmID)},
			"Created": {N: aws.String(strconv.FormatInt(want.pmC, 10))},
		}}
	}
	if want.revoked {
		kr["Revoked"] = &ddb1.AttributeValue{BOOL: aws.Bool(true)}
	}
	db.rows = append(db.rows, ddbRowV1{id: id, created: c, item: map[string]*ddb1.AttributeValue{
		"Id":        {S: aws.String(id)},
		"Created":   {N: aws.String(strconv.FormatInt(c, 10))},
		"KeyRecord": {M: kr},
	}})
	readsBack(m, "C18.ddbv1", id, c, want)
	vx.Reach("C18.ddbv1.sdk_read")
}

// ItemsV2: aws-v2 DynamoDB item format, both directions.
func ItemsV2() {
	db := &ddbV2{table: "EncryptionKey", region: "us-west-2"}
	m, err := v2.NewDynamoDB(v2.WithDynamoDBClient(db))
	if err != nil || m == nil {
		vx.Assert("C18.ddbv2.constructed", false)
		vx.Stop()
	}
	id := "_IK_p_svc_prod"
	klen := []int{1, 2, 3}[vx.Choice("keylen", 3)]
	rec, c := symRecord(id, klen)
	want := rowOf(id, c, rec)
	str := func(av ddb2types.AttributeValue) (string, bool) {
		s, ok := av.(*ddb2types.AttributeValueMemberS)
		if !ok || s == nil {
			return "", false
		}
		return s.Value, true
	}
	num := func(av ddb2types.AttributeValue) (string, bool) {
		s, ok := av.(*ddb2types.AttributeValueMemberN)
		if !ok || s == nil {
			return "", false
		}
		return s.Value, true
	}
	if vx.Choice("direction", 2) == 0 {
		ok, err := m.Store(env.Ctx, id, c, rec)
		vx.Assert("C18.ddbv2.store_ok", ok && err == nil)
		if len(db.rows) != 1 {
			vx.Assert("C18.ddbv2.one_item_written", false)
			vx.Stop()
		}
		it := db.rows[0].item
		good := len(it) == 3 && it["Id"] != nil && it["Created"] != nil && it["KeyRecord"] != nil
		vx.Assert("C18.ddbv2.item_has_exactly_Id_Created_KeyRecord", good)
		if !good {
			vx.Stop()
		}
		s, isS := str(it["Id"])
		vx.Assert("C18.ddbv2.Id_is_S_key_id", isS && s == id)
		s, isN := num(it["Created"])
		vx.Assert("C18.ddbv2.Created_is_N_unix_seconds", isN && s == strconv.FormatInt(c, 10))
		krm, isM := it["KeyRecord"].(*ddb2types.AttributeValueMemberM)
		vx.Assert("C18.ddbv2.KeyRecord_is_M", isM && krm != nil)
		if !isM || krm == nil {
			vx.Stop()
		}
		kr := krm.Value
		n := 2
		s, isS = str(kr["Key"])
		vx.Assert("C18.ddbv2.Key_is_S_std_base64", isS && s == base64.StdEncoding.EncodeToString(want.key))
		s, isN = num(kr["Created"])
		vx.Assert("C18.ddbv2.KeyRecord_Created_is_N", isN && s == strconv.FormatInt(c, 10))
		if want.hasPM {
			n++
			pm, okpm := kr["ParentKeyMeta"].(*ddb2types.AttributeValueMemberM)
			okpm = okpm && pm != nil && len(pm.Value) == 2
			vx.Assert("C18.ddbv2.ParentKeyMeta_is_M_KeyId_Created", okpm)
			if okpm {
				ks, ok1 := str(pm.Value["KeyId"])
				cs, ok2 := num(pm.Value["Created"])
				vx.Assert("C18.ddbv2.ParentKeyMeta_values", ok1 && ok2 && ks == want.pmID && cs == strconv.FormatInt(want.pmC, 10))
			}
		} else {
			vx.Assert("C18.ddbv2.no_ParentKeyMeta_for_a_key_without_parent", kr["ParentKeyMeta"] == nil)
		}
		if want.revoked {
			n++
			b, isB := kr["Revoked"].(*ddb2types.AttributeValueMemberBOOL)
			vx.Assert("C18.ddbv2.Revoked_is_BOOL_true", isB && b != nil && b.Value)
		} else {
			vx.Assert("C18.ddbv2.Revoked_absent_when_false", kr["Revoked"] == nil)
		}
		vx.Assert("C18.ddbv2.KeyRecord_has_no_other_attribute", len(kr) == n)
		vx.Reach("C18.ddbv2.sdk_wrote")
		return
	}
	kr := map[string]ddb2types.AttributeValue{
		"Key":     &ddb2types.AttributeValueMemberS{Value: base64.StdEncoding.EncodeToString(want.key)},
		"Created": &ddb2types.AttributeValueMemberN{Value: strconv.FormatInt(c, 10)},
	}
	if want.hasPM {
		kr["ParentKeyMeta"] = &ddb2types.AttributeValueMemberM{Value: map[string]ddb2types.AttributeValue{
			"KeyId":   &ddb2types.AttributeValueMemberS{Value: want.pmID},
			"Created": &ddb2types.AttributeValueMemberN{Value: strconv.FormatInt(want.pmC, 10)},
		}}
	}
	if want.revoked {
		kr["Revoked"] = &ddb2types.AttributeValueMemberBOOL{Value: true}
	}
	db.rows = append(db.rows, ddbRowV2{id: id, created: c, item: map[string]ddb2types.AttributeValue{
		"Id":        &ddb2types.AttributeValueMemberS{Value: id},
		"Created":   &ddb2types.AttributeValueMemberN{Value: strconv.FormatInt(c, 10)},
		"KeyRecord": &ddb2types.AttributeValueMemberM{Value: kr},
	}})
	readsBack(m, "C18.ddbv2", id, c, want)
	vx.Reach("C18.ddbv2.sdk_read")
}

// documented JSON of a key record (docs/DesignAndArchitecture.md, cross-language feature files)
type docKeyMeta struct {
	KeyId   string `json:"KeyId"`
	Created int64  `json:"Created"`
}

type docKey struct {
	Revoked       bool        `json:"Revoked,omitempty"`
	Created       int64       `json:"Created"`
	Key           []byte      `json:"Key"`
	ParentKeyMeta *docKeyMeta `json:"ParentKeyMeta,omitempty"`
}

// SQLRows: RDBMS row format, both directions.
func SQLRows() {
	db := vx.SQLDB("mysql")
	m := persistence.NewSQLMetastore(db)
	id := "_IK_p_svc_prod"
	rec, c := symRecord(id, 2)
	want := rowOf(id, c, rec)
	if vx.Choice("direction", 2) == 0 {
		ok, err := m.Store(env.Ctx, id, c, rec)
		vx.Assert("C18.sql.store_ok", ok && err == nil)
		if vx.SQLRows(db) != 1 {
			vx.Assert("C18.sql.one_row_written", false)
			vx.Stop()
		}
		vx.Assert("C18.sql.id_column_is_key_id", vx.SQLRowID(db, 0) == id)
		vx.Assert("C18.sql.created_column_is_unix_seconds", vx.SQLRowCreated(db, 0) == c)
		txt := vx.SQLRowText(db, 0)
		shape := `{"Created":#number,"Key":#base64`
		if want.revoked {
			shape = `{"Revoked":true,"Created":#number,"Key":#base64`
		}
		if want.hasPM {
			shape += `,"ParentKeyMeta":{"KeyId":#string,"Created":#number}`
		}
		shape += "}"
		vx.Assert("C18.sql.key_record_is_documented_json", vx.JSONShape([]byte(txt)) == shape)
		var ref docKey
		vx.Assert("C18.sql.reference_reads_sdk_row", json.Unmarshal([]byte(txt), &ref) == nil)
		good := vx.And(ref.Created == c, vx.And(vx.BytesEq(ref.Key, want.key), ref.Revoked == want.revoked))
		if (ref.ParentKeyMeta != nil) != want.hasPM {
			good = false
		} else if want.hasPM {
			good = vx.And(good, vx.And(ref.ParentKeyMeta.KeyId == want.pmID, ref.ParentKeyMeta.Created == want.pmC))
		}
		vx.Assert("C18.sql.reference_sees_every_field", good)
		vx.Reach("C18.sql.sdk_wrote")
		return
	}
	ref := docKey{Revoked: want.revoked, Created: c, Key: want.key}
	if want.hasPM {
		ref.ParentKeyMeta = &docKeyMeta{KeyId: want.pmID, Created: want.pmC}
	}
	b, _ := json.Marshal(ref)
	vx.SQLInsertRaw(db, id, c, string(b))
	readsBack(m, "C18.sql", id, c, want)
	vx.Reach("C18.sql.sdk_read")
}
