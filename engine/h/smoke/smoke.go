// Package smoke exercises the executor on small self-contained programs.
package smoke

import (
	"bufio"
	"crypto/rand"
	"errors"
	"fmt"
	"io"
	"sort"
	"strconv"

	"verifh/vx"
)

type pair struct {
	a, b int64
}

func abs(x int64) int64 {
	if x < 0 {
		return -x
	}
	return x
}

// Arith: branch forking + assertion decided by solver; one deliberate off-by-one is NOT here.
func Arith() {
	x := vx.Int64("x")
	vx.Assume(x > -1000 && x < 1000)
	y := abs(x)
	vx.Assert("abs.nonneg", y >= 0)
	vx.Assert("abs.square", y*y == x*x)
	m := map[string]pair{}
	m["k"+strconv.FormatInt(x, 10)] = pair{x, y}
	p, ok := m["k"+strconv.FormatInt(x, 10)]
	vx.Assert("map.hit", ok)
	vx.Assert("map.val", p.a == x)
	_, ok2 := m["k"+strconv.FormatInt(x+1, 10)]
	vx.Assert("map.miss", !ok2)
	vx.Reach("arith.end")
}

// Bytes: slices, append aliasing, copy, sort.
func Bytes() {
	b := vx.BytesUpTo("b", 3)
	c := append([]byte{1, 2}, b...)
	vx.Assert("len", len(c) == len(b)+2)
	d := make([]byte, len(c))
	n := copy(d, c)
	vx.Assert("copy", n == len(c) && vx.BytesEq(c, d))
	xs := []int64{vx.Int64("p"), vx.Int64("q"), vx.Int64("r")}
	sort.Slice(xs, func(i, j int) bool { return xs[i] < xs[j] })
	vx.Assert("sorted", vx.And(xs[0] <= xs[1], xs[1] <= xs[2]))
	vx.Reach("bytes.end")
}

type myErr struct{ code int }

func (e *myErr) Error() string { return fmt.Sprintf("code %d", e.code) }

func mayFail(k int) (res int, err error) {
	defer func() {
		if r := recover(); r != nil {
			err = fmt.Errorf("recovered: %v", r)
		}
	}()
	if k == 1 {
		return 0, &myErr{7}
	}
	if k == 2 {
		var p *pair
		return int(p.a), nil
	}
	if k == 3 {
		return 0, fmt.Errorf("wrapped: %w", &myErr{9})
	}
	return 42, nil
}

// Errors: defers, recover of a nil deref, errors.As through %w.
func Errors() {
	k := vx.Choice("k", 4)
	r, err := mayFail(k)
	switch k {
	case 0:
		vx.Assert("ok", err == nil && r == 42)
	case 1:
		var me *myErr
		vx.Assert("as", errors.As(err, &me) && me.code == 7)
	case 2:
		vx.Assert("recovered", err != nil)
	case 3:
		var me *myErr
		vx.Assert("as.wrapped", errors.As(err, &me) && me.code == 9)
		vx.Assert("msg", err.Error() == "wrapped: code 9")
	}
	vx.Reach("errors.end")
}

// Bad: a violated assertion that the engine must find (x == 77777).
func Bad() {
	x := vx.Int64("x")
	if x*3 == 233331 {
		vx.Assert("bad.never", false)
	}
	vx.Reach("bad.end")
}

// Threads: two goroutines incrementing under a mutex; channel hand-off.
func Threads() {
	done := make(chan int)
	total := 0
	for i := 0; i < 2; i++ {
		go func(d int) {
			total += d
			done <- d
		}(i + 1)
	}
	a := <-done
	b := <-done
	vx.Assert("sum", a+b == 3)
	vx.Assert("total", total == 3)
	vx.Reach("threads.end")
}

var bufRand = bufio.NewReaderSize(rand.Reader, 64)

// RandReader: crypto/rand.Reader behind a bufio.Reader (package-level initialiser, as a refactor might write it).
func RandReader() {
	b := make([]byte, 12)
	n, err := io.ReadFull(bufRand, b)
	vx.Assert("smoke.randreader", n == 12 && err == nil)
	vx.Assert("smoke.randreader_fresh", vx.FreshDraw(b))
	vx.Reach("randreader.end")
}

func RandReader2() {
	b := make([]byte, 12)
	n, err := rand.Reader.Read(b)
	vx.Assert("smoke.randreader2", n == 12 && err == nil)
	r := bufio.NewReaderSize(rand.Reader, 64)
	n, err = r.Read(b)
	vx.Assert("smoke.randreader3", n == 12 && err == nil)
	vx.Reach("randreader.end")
}

type zeroReader struct{}

func (zeroReader) Read(p []byte) (int, error) { return len(p), nil }

func RandReader3() {
	b := make([]byte, 12)
	r := bufio.NewReaderSize(zeroReader{}, 64)
	n, err := r.Read(b)
	vx.Assert("smoke.randreader3", n == 12 && err == nil)
	vx.Reach("randreader.end")
}

type rdr struct {
	buf          []byte
	rd           io.Reader
	r, w         int
	err          error
	lastByte     int
	lastRuneSize int
}

func (b *rdr) reset(buf []byte, r io.Reader) {
	*b = rdr{buf: buf, rd: r, lastByte: -1, lastRuneSize: -1}
}

func newRdr(rd io.Reader, size int) *rdr {
	b, ok := rd.(*rdr)
	if ok && len(b.buf) >= size {
		return b
	}
	r := new(rdr)
	r.reset(make([]byte, max(size, 16)), rd)
	return r
}

func RandReader4() {
	r := newRdr(zeroReader{}, 64)
	vx.Assert("smoke.rdr_set", r.rd != nil && len(r.buf) == 64 && r.lastByte == -1)
	vx.Reach("randreader.end")
}

func (b *rdr) Read(p []byte) (int, error) { return b.rd.Read(p) }

func RandReader5() {
	r := new(rdr)
	r.reset(make([]byte, 64), zeroReader{})
	vx.Assert("smoke.a1_lastbyte", r.lastByte == -1)
	vx.Assert("smoke.a2_buf", len(r.buf) == 64)
	vx.Assert("smoke.a3_rd", r.rd != nil)
	r2 := new(rdr)
	*r2 = rdr{buf: make([]byte, 3), rd: zeroReader{}, lastByte: -1}
	vx.Assert("smoke.b_store_literal", r2.rd != nil && len(r2.buf) == 3 && r2.lastByte == -1)
	n := max(3, 16)
	vx.Assert("smoke.c_max", n == 16)
	var rd io.Reader = zeroReader{}
	b, ok := rd.(*rdr)
	vx.Assert("smoke.d_assert", !ok && b == nil)
	vx.Reach("randreader.end")
}
