package smoke

import (
	"context"
	"encoding/binary"
	"encoding/json"
	"errors"
	"fmt"
	"sort"
	"strings"
	"sync"
	"sync/atomic"

	"verifh/vx"
)

// Translator self-test corpus (DESIGN 7): small programs whose expected results are written down from the Go
// specification. The executor must close every assertion; the same functions are then replayed natively (agreement
// replay), so a wrong expectation would be caught by the real compiler and a wrong executor by the expectation.

type inner struct {
	a, b int
	s    []byte
}

type outer struct {
	in  inner
	p   *inner
	arr [3]int
	m   map[string]int
}

func (o *outer) set(in inner) { *o = outer{in: in, arr: [3]int{1, 2, 3}} }

func (o outer) sum() int { return o.arr[0] + o.arr[1] + o.arr[2] + o.in.a }

// Aggregates: value semantics of structs and arrays, pointers to fields across whole-value stores.
func Aggregates() {
	var o outer
	pa := &o.in.a // taken before the whole struct is overwritten
	parr := &o.arr[1]
	o.set(inner{a: 7, b: 8, s: []byte{1, 2}})
	vx.Assert("sem.field_pointer_survives_struct_store", *pa == 7)
	vx.Assert("sem.elem_pointer_survives_struct_store", *parr == 2)
	*pa = 9
	vx.Assert("sem.write_through_field_pointer", o.in.a == 9)
	c := o // copy
	c.in.a = 1
	c.arr[0] = 100
	vx.Assert("sem.struct_assignment_copies", o.in.a == 9 && o.arr[0] == 1)
	c.in.s[0] = 42 // slices inside the copy share their backing array
	vx.Assert("sem.slice_field_shared_after_copy", o.in.s[0] == 42)
	arr2 := o.arr
	arr2[2] = -1
	vx.Assert("sem.array_assignment_copies", o.arr[2] == 3)
	o.p = &o.in
	o.p.b = 55
	vx.Assert("sem.pointer_to_own_field", o.in.b == 55)
	vx.Assert("sem.value_receiver_sees_copy", o.sum() == 1+2+3+9)
	f := o.sum // method value binds a copy of the receiver
	o.in.a = 0
	vx.Assert("sem.method_value_binds_copy", f() == 15 && o.sum() == 6)
	ps := []*inner{{a: 1}, {a: 2}}
	for _, p := range ps {
		p.a *= 10
	}
	vx.Assert("sem.range_over_pointers", ps[0].a == 10 && ps[1].a == 20)
	vs := []inner{{a: 1}, {a: 2}}
	for _, v := range vs {
		v.a *= 10
	}
	vx.Assert("sem.range_value_is_a_copy", vs[0].a == 1 && vs[1].a == 2)
	for i := range vs {
		vs[i].a *= 10
	}
	vx.Assert("sem.index_assignment_in_place", vs[0].a == 10 && vs[1].a == 20)
	vx.Reach("sem.aggregates_end")
}

// Slices: aliasing rules of append / slicing / copy.
func Slices() {
	a := make([]int, 2, 4)
	b := append(a, 7) // within capacity: shares
	b[0] = 5
	vx.Assert("sem.append_within_cap_shares", a[0] == 5 && len(a) == 2 && len(b) == 3 && cap(b) == 4)
	c := append(b, 8, 9) // exceeds capacity: new array
	c[0] = 6
	vx.Assert("sem.append_beyond_cap_copies", b[0] == 5 && len(c) == 5)
	d := c[1:3]
	vx.Assert("sem.slice_len_cap", len(d) == 2 && cap(d) == cap(c)-1)
	e := c[1:3:3]
	e = append(e, 100) // full slice expression: must reallocate
	vx.Assert("sem.three_index_slice_protects", c[3] == 8 && e[2] == 100)
	x := []int{1, 2, 3, 4, 5}
	n := copy(x[1:], x) // overlapping copy behaves like memmove
	vx.Assert("sem.overlapping_copy", n == 4 && x[0] == 1 && x[1] == 1 && x[2] == 2 && x[4] == 4)
	var nilS []byte
	empty := []byte{}
	vx.Assert("sem.nil_vs_empty", nilS == nil && empty != nil && len(nilS) == 0 && len(append(nilS, empty...)) == 0)
	s2 := [][]byte{{1}, {2, 3}}
	s2[1] = append(s2[1][:1], 9)
	vx.Assert("sem.nested_slices", len(s2[1]) == 2 && s2[1][1] == 9)
	ar := [4]int{1, 2, 3, 4}
	sl := ar[:]
	sl[0] = 10
	vx.Assert("sem.slice_of_array_aliases", ar[0] == 10)
	str := "héllo"
	vx.Assert("sem.string_len_is_bytes", len(str) == 6 && str[1] == 0xc3 && str[2:] == "\xa9llo")
	cnt := 0
	for range str {
		cnt++
	}
	vx.Assert("sem.range_string_counts_runes", cnt == 5)
	bs := []byte(str)
	bs[0] = 'H'
	vx.Assert("sem.string_bytes_conversion_copies", str[0] == 'h' && string(bs[:1]) == "H")
	vx.Assert("sem.strings_helpers", strings.ToUpper("ab") == "AB" && strings.Contains("abc", "bc") && fmt.Sprintf("%d-%s", 7, "x") == "7-x")
	vx.Reach("sem.slices_end")
}

type shape interface{ area() int }
type sq struct{ s int }
type rect struct{ w, h int }

func (s sq) area() int    { return s.s * s.s }
func (r *rect) area() int { return r.w * r.h }

type base struct{ id int }

func (b *base) setID(i int) { b.id = i }
func (b base) getID() int   { return b.id }

type derived struct {
	base
	name string
}

type myError struct{ code int }

func (e *myError) Error() string { return fmt.Sprintf("code %d", e.code) }

var errSeven = errors.New("seven")

func (e *myError) Is(target error) bool { return target == errSeven && e.code == 7 }

func typedNil() error {
	var e *myError
	return e // non-nil interface holding a nil pointer
}

func deferOrder() (res []int, named int) {
	defer func() { named *= 2 }()
	for i := 0; i < 3; i++ {
		defer func() { res = append(res, i) }()
	}
	named = 21
	return res, named
}

func recovers() (msg string) {
	defer func() {
		if r := recover(); r != nil {
			msg = fmt.Sprint("recovered: ", r)
		}
	}()
	var m map[string]int
	m["x"] = 1 // write to nil map panics
	return "not reached"
}

// Dynamic: interfaces, embedding, closures, defer/recover, maps.
func Dynamic() {
	var sh shape = sq{3}
	vx.Assert("sem.value_method_via_interface", sh.area() == 9)
	sh = &rect{2, 5}
	vx.Assert("sem.pointer_method_via_interface", sh.area() == 10)
	switch v := sh.(type) {
	case sq:
		vx.Assert("sem.type_switch_wrong_arm", false)
	case *rect:
		vx.Assert("sem.type_switch", v.w == 2)
	}
	_, isSq := sh.(sq)
	vx.Assert("sem.comma_ok_assertion", !isSq)
	var e error
	vx.Assert("sem.nil_interface", e == nil)
	e = typedNil()
	vx.Assert("sem.typed_nil_is_not_nil", e != nil)
	var me *myError
	vx.Assert("sem.errors_as_typed_nil", errors.As(e, &me) && me == nil)
	wrapped := fmt.Errorf("ctx: %w", &myError{4})
	vx.Assert("sem.errors_as_unwraps", errors.As(wrapped, &me) && me.code == 4 && wrapped.Error() == "ctx: code 4")
	// errors.Is: nil target, sentinel values of un-run package initialisers, wrapping, Is methods
	plain := errors.New("plain")
	vx.Assert("sem.errors_is_nil_target", !errors.Is(plain, nil) && errors.Is(nil, nil) && !errors.Is(nil, plain))
	vx.Assert("sem.errors_is_sentinels", !errors.Is(plain, context.DeadlineExceeded) && !errors.Is(plain, context.Canceled) &&
		errors.Is(context.DeadlineExceeded, context.DeadlineExceeded) && !errors.Is(context.Canceled, context.DeadlineExceeded))
	timeout := fmt.Errorf("region x: %w", context.DeadlineExceeded)
	vx.Assert("sem.errors_is_unwraps", errors.Is(timeout, context.DeadlineExceeded) && !errors.Is(timeout, context.Canceled) && errors.Is(timeout, timeout))
	vx.Assert("sem.errors_is_method", errors.Is(&myError{7}, errSeven) && !errors.Is(&myError{8}, errSeven))
	// fmt with flags, widths and bad verbs on concrete operands (decided by the host's fmt in the executor)
	vx.Assert("sem.sprintf_flags", fmt.Sprintf("%05d|%-4s|%x|%q", 42, "ab", 255, "z") == `00042|ab  |ff|"z"`)
	vx.Assert("sem.sprintf_bad_verb", fmt.Sprintf("a%2Fb_%s", "us-west-2") == fmt.Sprintf("a%3Fb_%s", "us-west-2") &&
		fmt.Sprintf("a%2Fb_%s", "us-west-2") == "a%!F(string=us-west-2)b_%!s(MISSING)")
	// context cancellation and atomic.Value (modelled as a cell)
	cctx, cancel := context.WithCancel(context.Background())
	vx.Assert("sem.ctx_live", cctx.Err() == nil)
	cancel()
	vx.Assert("sem.ctx_cancelled", errors.Is(cctx.Err(), context.Canceled) && !errors.Is(cctx.Err(), context.DeadlineExceeded))
	var av atomic.Value
	vx.Assert("sem.atomic_value_empty", av.Load() == nil)
	av.Store(5)
	vx.Assert("sem.atomic_value_holds", av.Load().(int) == 5 && av.Swap(6).(int) == 5 && av.Load().(int) == 6)
	// sync.Pool: Get returns a pooled object or a new one, never anything else
	pool := sync.Pool{New: func() any { return &inner{a: -1} }}
	first := pool.Get().(*inner)
	vx.Assert("sem.pool_new", first.a == -1)
	first.a = 5
	pool.Put(first)
	second := pool.Get().(*inner)
	vx.Assert("sem.pool_get", (second == first && second.a == 5) || (second != first && second.a == -1))
	d := derived{name: "n"}
	d.setID(5) // promoted pointer method on addressable value
	vx.Assert("sem.promoted_methods", d.getID() == 5 && d.base.id == 5)
	// closures capture variables, not values; loop variables are per iteration (go >= 1.22)
	var fs []func() int
	for i := 0; i < 3; i++ {
		fs = append(fs, func() int { return i * 10 })
	}
	x := 1
	inc := func() { x++ }
	inc()
	inc()
	vx.Assert("sem.closure_captures_variable", x == 3 && fs[0]() == 0 && fs[2]() == 20)
	res, named := deferOrder()
	vx.Assert("sem.defers_run_lifo_and_see_named_results", named == 42 && len(res) == 3 && res[0] == 2 && res[2] == 0)
	vx.Assert("sem.recover_from_nil_map_write", strings.HasPrefix(recovers(), "recovered: "))
	m := map[string][]int{}
	m["a"] = append(m["a"], 1)
	m["a"] = append(m["a"], 2)
	m["b"] = nil
	delete(m, "zz")
	_, has := m["b"]
	vx.Assert("sem.map_ops", len(m) == 2 && len(m["a"]) == 2 && has && m["nope"] == nil)
	ms := map[int]inner{1: {a: 1}}
	v := ms[1]
	v.a = 99
	vx.Assert("sem.map_value_is_copy", ms[1].a == 1)
	keys := []string{}
	for k := range map[string]bool{"q": true, "p": true, "r": true} {
		keys = append(keys, k)
	}
	sort.Strings(keys)
	vx.Assert("sem.map_iteration_visits_all", len(keys) == 3 && keys[0] == "p" && keys[2] == "r")
	vx.Reach("sem.dynamic_end")
}

// Integers: wrap-around, division, shifts, conversions - concrete and symbolic.
func Integers() {
	var i8 int8 = 127
	i8++
	var u8 uint8 = 0
	u8--
	vx.Assert("sem.wraparound_concrete", i8 == -128 && u8 == 255)
	m7, p2 := -7, 2
	vx.Assert("sem.signed_div_mod_truncate", m7/p2 == -3 && m7%p2 == -1 && -m7/-p2 == -3 && -m7%-p2 == 1)
	var one uint32 = 1
	sh := uint(40)
	vx.Assert("sem.shift_beyond_width_is_zero", one<<sh == 0 && int32(-8)>>sh == -1)
	v200, vm1, vbig := int32(200), int8(-1), uint32(1<<31)
	vx.Assert("sem.conversions", int8(v200) == -56 && uint16(vm1) == 65535 && int64(vbig) == 1<<31 && int32(vbig) < 0)
	// symbolic: the same laws for every value
	// (pure bit-vector words: vx.Int64 carries an integer twin meant for clock arithmetic)
	x := int64(binary.LittleEndian.Uint64(vx.Bytes("x", 8)))
	y := int64(binary.LittleEndian.Uint64(vx.Bytes("y", 8)))
	vx.Assert("sem.sym_add_sub_inverse", x+y-y == x)
	vx.Assert("sem.sym_neg_neg", -(-x) == x)
	vx.Assert("sem.sym_xor_self", x^x == 0 && x&^x == 0)
	vx.Assert("sem.sym_order_total", x < y || x == y || x > y)
	vx.Assert("sem.sym_overflow_wraps", vx.Implies(x == 1<<63-1, x+1 < x))
	vx.Assert("sem.sym_no_overflow_otherwise", vx.Implies(x != 1<<63-1, x+1 > x))
	b := vx.Byte("b")
	vx.Assert("sem.sym_byte_not_not", ^(^b) == b && b^0xff^0xff == b)
	vx.Assert("sem.sym_byte_shift_pair", (b>>4)<<4|(b&0x0f) == b)
	vx.Assert("sem.sym_byte_widening", int(b) >= 0 && int(b) <= 255 && int(int8(b)) >= -128 && int(int8(b)) <= 127)
	vx.Assert("sem.sym_unsigned_vs_signed_compare", vx.Implies(b >= 128, int8(b) < 0))
	x8, y8 := int8(x), int8(y)
	if y8 != 0 {
		vx.Assert("sem.sym_div_mod_identity", (x8/y8)*y8+x8%y8 == x8)
		vx.Reach("sem.integers_div")
	}
	u := uint64(x)
	vx.Assert("sem.sym_unsigned_shift", (u<<1)>>1 == u&^(1<<63))
	bs := vx.Bytes("bs", 4)
	cp := append([]byte(nil), bs...)
	for i := range cp {
		cp[i] ^= 0x5a
	}
	for i := range cp {
		cp[i] ^= 0x5a
	}
	vx.Assert("sem.sym_bytes_roundtrip", vx.BytesEq(cp, bs))
	sum := 0
	for _, v := range bs {
		sum += int(v)
	}
	vx.Assert("sem.sym_sum_bounded", sum >= 0 && sum <= 4*255)
	if x > 10 {
		vx.Assert("sem.sym_branch_refines", x >= 11)
		vx.Reach("sem.integers_gt")
	} else {
		vx.Assert("sem.sym_branch_refines_else", x <= 10)
	}
	vx.Reach("sem.integers_end")
}

// Concurrency: channels, WaitGroup, Mutex, Once, atomics under the scheduler model.
func Concurrency() {
	ch := make(chan int, 3)
	ch <- 1
	ch <- 2
	ch <- 3
	close(ch)
	got := []int{}
	for v := range ch {
		got = append(got, v)
	}
	v, ok := <-ch
	vx.Assert("sem.buffered_channel_fifo_and_close", len(got) == 3 && got[0] == 1 && got[2] == 3 && v == 0 && !ok)
	sel := -1
	empty := make(chan int)
	select {
	case x := <-empty:
		sel = x
	default:
		sel = 7
	}
	vx.Assert("sem.select_default", sel == 7)
	var wg sync.WaitGroup
	var mu sync.Mutex
	var once sync.Once
	var hits int32
	total, inits := 0, 0
	for i := 1; i <= 3; i++ {
		wg.Add(1)
		go func(k int) {
			defer wg.Done()
			once.Do(func() { inits++ })
			mu.Lock()
			total += k
			mu.Unlock()
			atomic.AddInt32(&hits, 1)
		}(i)
	}
	wg.Wait()
	vx.Assert("sem.goroutines_join", total == 6 && inits == 1 && atomic.LoadInt32(&hits) == 3)
	res := make(chan string)
	go func() { res <- "pong" }()
	vx.Assert("sem.unbuffered_rendezvous", <-res == "pong")
	vx.Reach("sem.concurrency_end")
}

type jsonInner struct {
	KeyId   string `json:"KeyId"`
	Created int64  `json:"Created"`
}

type jsonDoc struct {
	ID      string     `json:"-"`
	Revoked bool       `json:"Revoked,omitempty"`
	Created int64      `json:"Created"`
	Key     []byte     `json:"Key"`
	Parent  *jsonInner `json:"ParentKeyMeta,omitempty"`
}

// JSONText: encoding/json over concrete text that the model did not produce itself (rows written by something else,
// corrupted columns): parsed for real.
func JSONText() {
	var d *jsonDoc
	vx.Assert("sem.json_null_leaves_pointer_nil", json.Unmarshal([]byte("null"), &d) == nil && d == nil)
	vx.Assert("sem.json_null_with_spaces", json.Unmarshal([]byte(" null "), &d) == nil && d == nil)
	err := json.Unmarshal([]byte(`{"Created":7,"Key":"AAEC","ParentKeyMeta":{"KeyId":"k","Created":3},"Revoked":true,"Extra":[1,2]}`), &d)
	vx.Assert("sem.json_object", err == nil && d != nil && d.Created == 7 && d.Revoked && len(d.Key) == 3 && d.Key[1] == 1 && d.Key[2] == 2 &&
		d.Parent != nil && d.Parent.KeyId == "k" && d.Parent.Created == 3 && d.ID == "")
	var e *jsonDoc
	vx.Assert("sem.json_case_insensitive_members", json.Unmarshal([]byte(`{"created":9,"KEY":"AA=="}`), &e) == nil && e.Created == 9 && len(e.Key) == 1)
	var f *jsonDoc
	vx.Assert("sem.json_empty_object", json.Unmarshal([]byte(`{}`), &f) == nil && f != nil && f.Parent == nil && f.Key == nil)
	var g *jsonDoc
	vx.Assert("sem.json_syntax_errors", json.Unmarshal([]byte(`{`), &g) != nil && json.Unmarshal([]byte(``), &g) != nil && json.Unmarshal([]byte(`tru`), &g) != nil)
	vx.Assert("sem.json_wrong_shapes", json.Unmarshal([]byte(`[]`), &g) != nil && json.Unmarshal([]byte(`"x"`), &g) != nil && json.Unmarshal([]byte(`7`), &g) != nil)
	var h *jsonDoc
	vx.Assert("sem.json_bad_base64_and_types", json.Unmarshal([]byte(`{"Key":"!!!"}`), &h) != nil && json.Unmarshal([]byte(`{"Created":"soon"}`), &h) != nil)
	var k *jsonDoc
	vx.Assert("sem.json_null_members", json.Unmarshal([]byte(`{"Key":null,"ParentKeyMeta":null,"Created":1}`), &k) == nil && k.Key == nil && k.Parent == nil && k.Created == 1)
	vx.Reach("sem.jsontext_end")
}
