// Package env builds the real SDK stack (SessionFactory, MemoryMetastore, StaticKMS,
// AES256GCM code path) around spies and a tracking SecretFactory for the harnesses.
package env

import (
	"context"
	"crypto/rand"
	"errors"
	"io"
	"time"

	ae "github.com/godaddy/asherah/go/appencryption"
	"github.com/godaddy/asherah/go/appencryption/pkg/crypto/aead"
	"github.com/godaddy/asherah/go/appencryption/pkg/kms"
	"github.com/godaddy/asherah/go/appencryption/pkg/persistence"
	"github.com/godaddy/asherah/go/securememory"

	"verifh/vx"
)

var Ctx = context.Background()

// ---- tracking secret factory ----

type Secret struct {
	T          *Tracker
	ID         int
	B          []byte
	Closed     bool
	CloseCount int
	UseAfter   int // accesses after Close
	Random     bool
	Holder     []byte // the slice handed to New (must be wiped by the factory)
}

var errClosed = errors.New("secret has already been destroyed")

type Tracker struct {
	Secrets []*Secret
	FailNew bool
}

func (t *Tracker) New(b []byte) (securememory.Secret, error) {
	if vx.Fault("secret", "New") {
		return nil, errors.New("vx: injected SecretFactory.New failure")
	}
	s := &Secret{T: t, ID: len(t.Secrets), B: make([]byte, len(b)), Holder: b}
	copy(s.B, b)
	for i := range b {
		b[i] = 0
	}
	t.Secrets = append(t.Secrets, s)
	return s, nil
}

func (t *Tracker) CreateRandom(size int) (securememory.Secret, error) {
	if vx.Fault("secret", "CreateRandom") {
		return nil, errors.New("vx: injected SecretFactory.CreateRandom failure")
	}
	s := &Secret{T: t, ID: len(t.Secrets), B: make([]byte, size), Random: true}
	if _, err := rand.Read(s.B); err != nil {
		return nil, err
	}
	t.Secrets = append(t.Secrets, s)
	return s, nil
}

func (s *Secret) WithBytes(action func([]byte) error) error {
	if s.Closed {
		s.UseAfter++
		return errClosed
	}
	err := action(s.B)
	// like the real implementations: the action has run, then making the memory inaccessible again may fail
	if vx.Fault("secretrelease", "release") {
		return errors.New("vx: unable to mark memory as no-access")
	}
	return err
}

func (s *Secret) WithBytesFunc(action func([]byte) ([]byte, error)) ([]byte, error) {
	if s.Closed {
		s.UseAfter++
		return nil, errClosed
	}
	ret, err := action(s.B)
	if vx.Fault("secretrelease", "release") {
		return ret, errors.New("vx: unable to mark memory as no-access")
	}
	return ret, err
}

func (s *Secret) IsClosed() bool { return s.Closed }

func (s *Secret) Close() error {
	s.CloseCount++
	if !s.Closed {
		s.Closed = true
		for i := range s.B {
			s.B[i] = 0
		}
	}
	return nil
}

type nopReader struct{}

func (nopReader) Read(p []byte) (int, error) { return 0, errors.New("not supported") }

func (s *Secret) NewReader() io.Reader { return nopReader{} }

// Live returns the number of secrets not yet closed.
func (t *Tracker) Live() int {
	n := 0
	for _, s := range t.Secrets {
		if !s.Closed {
			n++
		}
	}
	return n
}

func (t *Tracker) UseAfterClose() int {
	n := 0
	for _, s := range t.Secrets {
		n += s.UseAfter
	}
	return n
}

// ---- spy metastore ----

type StoreEvent struct {
	ID      string
	Created int64
	EKR     *ae.EnvelopeKeyRecord
	OK      bool
}

type Spy struct {
	Inner                  *persistence.MemoryMetastore
	Loads, Latests, Stores int
	Yield                  bool
	YieldStoresOnly        bool // coarser interleaving: processes are pre-empted only right before an insert
	Suffix                 string
	Written                []StoreEvent // successful inserts, in order
}

// GetRegionSuffix makes the SDK use region-suffixed key ids when Suffix is set.
func (s *Spy) GetRegionSuffix() string { return s.Suffix }

func NewSpy() *Spy { return &Spy{Inner: persistence.NewMemoryMetastore()} }

func (s *Spy) Calls() int { return s.Loads + s.Latests + s.Stores }

func (s *Spy) Load(ctx context.Context, id string, created int64) (*ae.EnvelopeKeyRecord, error) {
	if s.Yield && !s.YieldStoresOnly {
		vx.Yield()
	}
	s.Loads++
	maybeCancel()
	if vx.Fault("ext", "meta.Load") {
		return nil, errors.New("vx: injected metastore Load failure")
	}
	return s.Inner.Load(ctx, id, created)
}

func (s *Spy) LoadLatest(ctx context.Context, id string) (*ae.EnvelopeKeyRecord, error) {
	if s.Yield && !s.YieldStoresOnly {
		vx.Yield()
	}
	s.Latests++
	maybeCancel()
	if vx.Fault("ext", "meta.LoadLatest") {
		return nil, errors.New("vx: injected metastore LoadLatest failure")
	}
	return s.Inner.LoadLatest(ctx, id)
}

func (s *Spy) Store(ctx context.Context, id string, created int64, ekr *ae.EnvelopeKeyRecord) (bool, error) {
	if s.Yield {
		vx.Yield()
	}
	s.Stores++
	maybeCancel()
	if vx.Fault("ext", "meta.Store") {
		switch vx.Choice("storefault", 3) {
		case 0:
			return false, errors.New("vx: injected metastore Store failure (nothing written)")
		case 1:
			return false, nil // false "duplicate" without write
		default:
			if ok, _ := s.Inner.Store(ctx, id, created, ekr); ok {
				s.Written = append(s.Written, StoreEvent{id, created, ekr, true})
			}
			return false, errors.New("vx: injected metastore Store failure after the write")
		}
	}
	ok, err := s.Inner.Store(ctx, id, created, ekr)
	if ok {
		s.Written = append(s.Written, StoreEvent{id, created, ekr, true})
	}
	return ok, err
}

// Row returns the stored record or nil.
func (s *Spy) Row(id string, created int64) *ae.EnvelopeKeyRecord {
	if m, ok := s.Inner.Envelopes[id]; ok {
		if r, ok := m[created]; ok {
			return r
		}
	}
	return nil
}

// Latest returns the stored record with the greatest Created for id, or nil.
func (s *Spy) Latest(id string) *ae.EnvelopeKeyRecord {
	var best *ae.EnvelopeKeyRecord
	for _, r := range s.Inner.Envelopes[id] {
		if best == nil || r.Created > best.Created {
			best = r
		}
	}
	return best
}

// Redate moves the stored record (id, old) to (id, new), as if it had been written at another time (by a host with
// a different clock, an import, ...). The wrapped key bytes are untouched.
func (s *Spy) Redate(id string, old, new int64) *ae.EnvelopeKeyRecord {
	m := s.Inner.Envelopes[id]
	r := m[old]
	if r == nil {
		return nil
	}
	delete(m, old)
	r.Created = new
	m[new] = r
	return r
}

func (s *Spy) Rows(id string) int { return len(s.Inner.Envelopes[id]) }

// ---- spy KMS ----

type SpyKMS struct {
	Inner      ae.KeyManagementService
	Encs, Decs int
}

func (k *SpyKMS) EncryptKey(ctx context.Context, b []byte) ([]byte, error) {
	k.Encs++
	maybeCancel()
	if vx.Fault("ext", "kms.EncryptKey") {
		return nil, errors.New("vx: injected KMS EncryptKey failure")
	}
	return k.Inner.EncryptKey(ctx, b)
}

func (k *SpyKMS) DecryptKey(ctx context.Context, b []byte) ([]byte, error) {
	k.Decs++
	maybeCancel()
	if vx.Fault("ext", "kms.DecryptKey") {
		return nil, errors.New("vx: injected KMS DecryptKey failure")
	}
	return k.Inner.DecryptKey(ctx, b)
}

// ---- caller contexts that end while a call is in flight ----

var cancelFn func()

// CancellableCtx returns a context for one SDK call that may be cancelled from inside any metastore / KMS call made
// during it (the external call itself still succeeds): what a caller's deadline expiring mid-operation looks like.
// done() ends the arrangement.
func CancellableCtx() (ctx context.Context, done func()) {
	ctx, cancel := context.WithCancel(context.Background())
	cancelFn = cancel
	vx.FaultCap(-1) // the per-domain budgets decide; a global cap of another experiment must not switch this off
	vx.FaultBudget("ctx", 1)
	return ctx, func() {
		vx.FaultBudget("ctx", 0)
		cancelFn = nil
		cancel()
	}
}

func maybeCancel() {
	if cancelFn != nil && vx.Fault("ctx", "cancel") {
		cancelFn()
	}
}

// ---- environment ----

const (
	Service   = "svc"
	Product   = "prod"
	MasterKey = "0123456789abcdef0123456789abcdef"
)

type Env struct {
	Store   *Spy
	KMS     *SpyKMS
	Crypto  ae.AEAD
	Secrets *Tracker
}

func New() *Env {
	crypto := aead.NewAES256GCM()
	k, err := kms.NewStatic(MasterKey, crypto)
	if err != nil {
		panic(err)
	}
	return &Env{Store: NewSpy(), KMS: &SpyKMS{Inner: k}, Crypto: crypto, Secrets: &Tracker{}}
}

// Policy grid: concrete durations, picked by index.
type PolicyChoice struct {
	Expire, Revoke, Precision time.Duration
}

var Policies = []PolicyChoice{
	{90 * 24 * time.Hour, 60 * time.Minute, time.Minute},
	{2 * time.Hour, 30 * time.Second, time.Second},
	{90 * time.Second, time.Second, 0},
	{2 * time.Hour, time.Second, time.Minute}, // precision coarser than the revoke-check interval
}

// Cache configurations.
const (
	CacheDefault = iota // per-session simple IK cache + simple SK cache
	CacheNone
	CacheLRU1
	CacheSharedLRU1
	CacheSLRU2
	CacheLFU1
	CacheSessionSLRU1
	CacheNoneShared // caching disabled by policy although a shared intermediate-key cache was asked for as well
	NumCacheConfigs
)

func (e *Env) Policy(p PolicyChoice, cache int) *ae.CryptoPolicy {
	pol := ae.NewCryptoPolicy(ae.WithExpireAfterDuration(p.Expire), ae.WithRevokeCheckInterval(p.Revoke))
	pol.CreateDatePrecision = p.Precision
	switch cache {
	case CacheNone:
		ae.WithNoCache()(pol)
	case CacheNoneShared:
		// policy.go: SharedIntermediateKeyCache "is ignored if CacheIntermediateKeys is disabled"
		ae.WithSharedIntermediateKeyCache(4)(pol)
		ae.WithNoCache()(pol)
	case CacheLRU1:
		pol.IntermediateKeyCacheMaxSize = 1
		pol.IntermediateKeyCacheEvictionPolicy = "lru"
		pol.SystemKeyCacheMaxSize = 1
		pol.SystemKeyCacheEvictionPolicy = "lru"
	case CacheSharedLRU1:
		ae.WithSharedIntermediateKeyCache(1)(pol)
		pol.IntermediateKeyCacheEvictionPolicy = "lru"
	case CacheSLRU2:
		pol.IntermediateKeyCacheMaxSize = 2
		pol.IntermediateKeyCacheEvictionPolicy = "slru"
		pol.SystemKeyCacheMaxSize = 2
		pol.SystemKeyCacheEvictionPolicy = "slru"
	case CacheLFU1:
		pol.IntermediateKeyCacheMaxSize = 1
		pol.IntermediateKeyCacheEvictionPolicy = "lfu"
	case CacheSessionSLRU1:
		ae.WithSessionCache()(pol)
		ae.WithSessionCacheMaxSize(1)(pol)
		pol.SessionCacheEvictionPolicy = "slru"
	}
	return pol
}

// NoCaching: the cache configurations under which the policy disables key caching.
func NoCaching(cache int) bool { return cache == CacheNone || cache == CacheNoneShared }

// CacheChoice: the cache configuration of a run - one of the first `caches` configurations, or, when the spec entry
// sets cache_only=k+1, exactly configuration k.
func CacheChoice() int {
	if k := vx.Param("cache_only"); k > 0 {
		return k - 1
	}
	return vx.Choice("cache", vx.Param("caches"))
}

func (e *Env) Factory(pol *ae.CryptoPolicy) *ae.SessionFactory {
	cfg := &ae.Config{Service: Service, Product: Product, Policy: pol}
	return ae.NewSessionFactory(cfg, e.Store, e.KMS, e.Crypto, ae.WithSecretFactory(e.Secrets))
}

func IKID(part string) string { return "_IK_" + part + "_" + Service + "_" + Product }
func SKID() string            { return "_SK_" + Service + "_" + Product }

// CloneDRR deep-copies a record (for the "record is not modified" oracle).
func CloneDRR(d *ae.DataRowRecord) *ae.DataRowRecord {
	c := &ae.DataRowRecord{Data: append([]byte(nil), d.Data...)}
	if d.Key != nil {
		k := *d.Key
		k.EncryptedKey = append([]byte(nil), d.Key.EncryptedKey...)
		if d.Key.ParentKeyMeta != nil {
			m := *d.Key.ParentKeyMeta
			k.ParentKeyMeta = &m
		}
		c.Key = &k
	}
	return c
}

// SameDRR is a non-forking structural comparison.
func SameDRR(a, b *ae.DataRowRecord) bool {
	ok := vx.BytesEq(a.Data, b.Data)
	if (a.Key == nil) != (b.Key == nil) {
		return false
	}
	if a.Key == nil {
		return ok
	}
	ok = vx.And(ok, vx.BytesEq(a.Key.EncryptedKey, b.Key.EncryptedKey))
	ok = vx.And(ok, a.Key.Created == b.Key.Created)
	ok = vx.And(ok, a.Key.Revoked == b.Key.Revoked)
	if (a.Key.ParentKeyMeta == nil) != (b.Key.ParentKeyMeta == nil) {
		return false
	}
	if a.Key.ParentKeyMeta != nil {
		ok = vx.And(ok, a.Key.ParentKeyMeta.Created == b.Key.ParentKeyMeta.Created)
		ok = vx.And(ok, a.Key.ParentKeyMeta.ID == b.Key.ParentKeyMeta.ID)
	}
	return ok
}

// RefDecrypt is an independent reference decryptor: it walks DRR -> IK row -> SK row -> KMS over the
// store contents using the AEAD directly (never the SDK's envelope code).
func (e *Env) RefDecrypt(d *ae.DataRowRecord) ([]byte, bool) {
	if d == nil || d.Key == nil || d.Key.ParentKeyMeta == nil {
		return nil, false
	}
	ik := e.Store.Row(d.Key.ParentKeyMeta.ID, d.Key.ParentKeyMeta.Created)
	if ik == nil || ik.ParentKeyMeta == nil {
		return nil, false
	}
	sk := e.Store.Row(ik.ParentKeyMeta.ID, ik.ParentKeyMeta.Created)
	if sk == nil {
		return nil, false
	}
	skBytes, err := e.KMS.Inner.DecryptKey(Ctx, sk.EncryptedKey)
	if err != nil {
		return nil, false
	}
	ikBytes, err := e.Crypto.Decrypt(ik.EncryptedKey, skBytes)
	if err != nil {
		return nil, false
	}
	drk, err := e.Crypto.Decrypt(d.Key.EncryptedKey, ikBytes)
	if err != nil {
		return nil, false
	}
	pt, err := e.Crypto.Decrypt(d.Data, drk)
	if err != nil {
		return nil, false
	}
	return pt, true
}

// Snapshot copies the store rows (pointer identity and field values) for the insert-only oracle.
type RowSnap struct {
	ID      string
	Created int64
	Ptr     *ae.EnvelopeKeyRecord
	Val     ae.EnvelopeKeyRecord
	Key     []byte
}

func (s *Spy) Snapshot() []RowSnap {
	var out []RowSnap
	for id, m := range s.Inner.Envelopes {
		for c, r := range m {
			out = append(out, RowSnap{id, c, r, *r, append([]byte(nil), r.EncryptedKey...)})
		}
	}
	return out
}

// Unchanged reports (without forking) that every row of the snapshot is still stored, same object, same key bytes
// and same parent; the Revoked flag is excluded (operators flip it out of band).
func (s *Spy) Unchanged(snap []RowSnap) bool {
	ok := true
	for _, r := range snap {
		cur := s.Row(r.ID, r.Created)
		if cur == nil || cur != r.Ptr {
			return false
		}
		ok = vx.And(ok, vx.BytesEq(cur.EncryptedKey, r.Key))
		ok = vx.And(ok, cur.Created == r.Val.Created)
		if (cur.ParentKeyMeta == nil) != (r.Val.ParentKeyMeta == nil) {
			return false
		}
	}
	return ok
}
