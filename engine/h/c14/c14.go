// Package c14: racing key creators converge on persisted keys; the metastore is never overwritten.
package c14

import (
	"time"

	ae "github.com/godaddy/asherah/go/appencryption"

	"verifh/h/env"
	"verifh/vx"
)

func secs(d time.Duration) int64 { return int64(d / time.Second) }

const (
	stCold = iota
	stWarm
	stExpired
	stIKRevoked
	stSKRevoked
	stBothRevoked
	numStates
)

// Race: N independent processes (own factory and caches) each perform one Encrypt concurrently against one
// store; the scheduler switches only at metastore calls (and when a thread blocks).
func Race() {
	e := env.New()
	pol := env.Policies[vx.Choice("policy", vx.Param("policies"))]
	N := vx.Param("procs")
	type proc struct {
		f   *ae.SessionFactory
		s   *ae.Session
		rec *ae.DataRowRecord
		err error
		pl  []byte
	}
	procs := make([]*proc, N)
	for i := range procs {
		p := &proc{f: e.Factory(e.Policy(pol, env.CacheDefault)), pl: []byte{byte(10 + i)}}
		p.s, _ = p.f.GetSession("p0")
		procs[i] = p
	}
	start := 0
	if o := vx.Param("only_state"); o > 0 {
		start = o - 1 // experiments / split runs: one start state per run
	} else {
		start = vx.Choice("start", vx.Param("states"))
	}
	// the last process may be cold (started after the keys were created) while the others are warm
	// (variants=0: every process warm; variants=1: also the last-process-cold variant)
	variants := vx.Param("variants") == 1
	lastCold := variants && start != stCold && vx.Choice("last_process_cold", 2) == 1
	t0, _ := vx.Now()
	if start != stCold {
		vx.ClockFreeze(true)
		for i, p := range procs {
			if lastCold && i == len(procs)-1 {
				continue
			}
			_, err := p.s.Encrypt(env.Ctx, []byte{0})
			vx.Assert("C14.setup_ok", err == nil)
		}
		vx.ClockFreeze(false)
		// resession=1: a warm process may have opened a new session since (its factory's system-key cache is warm,
		// the session's intermediate-key cache is cold)
		if vx.Param("resession") == 1 && vx.Choice("first_process_new_session", 2) == 1 {
			procs[0].s.Close()
			procs[0].s, _ = procs[0].f.GetSession("p0")
			vx.Reach("C14.warm_factory_new_session")
		}
	}
	// revocations are noticed by warm processes only after the revoke-check interval: race either inside it
	// (warm caches still trusted) or after it
	late := int64(0)
	// (variants=0: only the race after the interval, where every warm process has to notice the revocation)
	if start >= stIKRevoked && (!variants || vx.Choice("after_interval", 2) == 1) {
		late = 2*secs(pol.Revoke) + 2
	}
	switch start {
	case stExpired:
		vx.ClockMin(t0 + secs(pol.Expire) + secs(pol.Precision) + 2)
	case stIKRevoked:
		e.Store.Latest(env.IKID("p0")).Revoked = true
		vx.ClockMin(t0 + late)
	case stSKRevoked:
		e.Store.Latest(env.SKID()).Revoked = true
		vx.ClockMin(t0 + late)
	case stBothRevoked:
		e.Store.Latest(env.IKID("p0")).Revoked = true
		e.Store.Latest(env.SKID()).Revoked = true
		vx.ClockMin(t0 + late)
	}
	if vx.Param("freeze") == 1 {
		vx.Now()
		vx.ClockFreeze(true)
	}
	snap := e.Store.Snapshot()
	e.Store.Yield = true
	e.Store.YieldStoresOnly = vx.Param("stores_only") == 1
	vx.SchedOnlyAtYield(true)
	done := make(chan int, N)
	for i := range procs {
		go func(p *proc) {
			p.rec, p.err = p.s.Encrypt(env.Ctx, p.pl)
			done <- 1
		}(procs[i])
	}
	for range procs {
		<-done
	}
	e.Store.Yield = false
	vx.SchedOnlyAtYield(false)
	vx.ClockFreeze(true)
	vx.Assert("C14.no_stored_row_modified_or_removed", e.Store.Unchanged(snap))
	for _, p := range procs {
		vx.Assert("C14.racer_succeeds", p.err == nil)
		if p.err != nil {
			vx.Stop()
		}
		ik := e.Store.Row(p.rec.Key.ParentKeyMeta.ID, p.rec.Key.ParentKeyMeta.Created)
		vx.Assert("C14.uses_a_stored_ik", ik != nil)
		if ik == nil {
			vx.Stop()
		}
		vx.Assert("C14.its_sk_is_stored", e.Store.Row(ik.ParentKeyMeta.ID, ik.ParentKeyMeta.Created) != nil)
		pt, ok := e.RefDecrypt(p.rec)
		vx.Assert("C14.reference_decrypts", vx.And(ok, vx.BytesEq(pt, p.pl)))
	}
	// every process can read every other process's record
	for _, p := range procs {
		for _, q := range procs {
			out, err := p.s.Decrypt(env.Ctx, *q.rec)
			vx.Assert("C14.cross_process_decrypt", vx.And(err == nil, vx.BytesEq(out, q.pl)))
		}
	}
	vx.Reach("C14.end")
}
