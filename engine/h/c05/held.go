package c05

import (
	ae "github.com/godaddy/asherah/go/appencryption"

	"verifh/h/env"
	"verifh/vx"
)

// RevokeWhileHeld: revocation must be noticed although somebody else is using the key at that moment. Two sessions of
// one factory share the intermediate-key cache (and the system-key cache). One of them is in the middle of an encrypt,
// stopped at an arbitrary synchronisation operation inside it - possibly holding its reference to the cached key -
// while the key is revoked in the metastore and three revoke-check intervals pass; the other session then encrypts.
// Its record must not be protected by the revoked key (nor by an intermediate key under the revoked system key).
func RevokeWhileHeld() {
	e := env.New()
	p := env.Policies[0]
	pol := e.Policy(p, env.CacheDefault)
	ae.WithSharedIntermediateKeyCache(4)(pol)
	f := e.Factory(pol)
	I := secs(p.Revoke)
	t0, _ := vx.Now()
	vx.ClockFreeze(true)
	s1, _ := f.GetSession("p0")
	s2, _ := f.GetSession("p0")
	warm, err := s1.Encrypt(env.Ctx, []byte{1})
	vx.Assert("C05.held_warm_ok", err == nil)
	if err != nil {
		vx.Stop()
	}
	// the in-flight user: the same partition, or (for the system key) the first encrypt of another partition, which
	// holds the shared system key while it creates its intermediate key
	other := vx.Choice("in_flight_user_is_another_partition", 2) == 1
	user := s1
	if other {
		user, _ = f.GetSession("p9")
	}
	revokeSK := other || vx.Choice("revoked", 2) == 1
	ik0 := warm.Key.ParentKeyMeta.Created
	sk0 := e.Store.Row(env.IKID("p0"), ik0).ParentKeyMeta.Created
	done := make(chan int, 1)
	vx.PreemptWithin("EncryptPayload")
	go func() {
		_, err := user.Encrypt(env.Ctx, []byte{2})
		vx.Assert("C05.held_in_flight_encrypt_ok", err == nil)
		done <- 1
	}()
	vx.Yield() // the in-flight encrypt runs until the scheduler stops it somewhere inside (or lets it finish)
	vx.NoPreempt(true)
	if revokeSK {
		e.Store.Row(env.SKID(), sk0).Revoked = true
		vx.Tag("revoked", "sk")
	} else {
		e.Store.Row(env.IKID("p0"), ik0).Revoked = true
		vx.Tag("revoked", "ik")
	}
	vx.ClockFreeze(false)
	vx.ClockMin(t0 + 3*I + 3)
	vx.Now()
	vx.ClockFreeze(true)
	rec, err := s2.Encrypt(env.Ctx, []byte{3})
	vx.NoPreempt(false)
	vx.Assert("C05.held_encrypt_ok", err == nil)
	if err == nil {
		nik := rec.Key.ParentKeyMeta.Created
		row := e.Store.Row(env.IKID("p0"), nik)
		vx.Assert("C05.held_ik_row_present", row != nil)
		if row != nil {
			vx.Assert("C05.held_revoked_ik_not_used_after_the_interval", !row.Revoked)
			skRow := e.Store.Row(env.SKID(), row.ParentKeyMeta.Created)
			vx.Assert("C05.held_revoked_sk_not_used_after_two_intervals", skRow != nil && !skRow.Revoked)
		}
	}
	<-done
	vx.PreemptWithin("")
	out, err := s2.Decrypt(env.Ctx, *warm)
	vx.Assert("C05.held_old_record_still_decrypts", vx.And(err == nil, vx.BytesEq(out, []byte{1})))
	vx.Reach("C05.held_end")
}
