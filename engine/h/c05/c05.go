// Package c05: revocation in the metastore takes effect within the revoke-check interval.
package c05

import (
	"time"

	"verifh/h/env"
	"verifh/vx"
)

func secs(d time.Duration) int64 { return int64(d / time.Second) }

// Revoke: a live session has cached IK and SK; one of them is flagged revoked out of band at t_r;
// the session keeps encrypting at arbitrary later instants.
func Revoke() {
	e := env.New()
	pol := env.Policies[vx.Choice("policy", vx.Param("policies"))]
	cache := vx.Choice("cache", vx.Param("caches"))
	f := e.Factory(e.Policy(pol, cache))
	sess, _ := f.GetSession("p0")
	freeze := vx.Param("freeze") == 1
	I, P := secs(pol.Revoke), secs(pol.Precision)
	tick := func() (int64, int64) {
		vx.ClockFreeze(false)
		s, n := vx.Now()
		vx.ClockFreeze(freeze)
		return s, n
	}
	tick()
	first, err := sess.Encrypt(env.Ctx, []byte{7})
	vx.Assert("C05.warm_ok", err == nil)
	if err != nil {
		vx.Stop()
	}
	ik0 := first.Key.ParentKeyMeta.Created
	ikRow := e.Store.Row(env.IKID("p0"), ik0)
	if ikRow == nil {
		vx.Assert("C05.warm_row", false)
		vx.Stop()
	}
	sk0 := ikRow.ParentKeyMeta.Created
	// optionally use the session again before the revocation (cache filled at another time)
	if vx.Choice("warm_again", 2) == 1 {
		tick()
		sess.Encrypt(env.Ctx, []byte{8})
	}
	which := vx.Choice("revoked", 2) // 0: latest IK, 1: latest SK
	rs, rn := tick()
	var revokedCreated int64
	k := int64(1)
	if which == 0 {
		r := e.Store.Latest(env.IKID("p0"))
		r.Revoked = true
		revokedCreated = r.Created
		vx.Tag("revoked", "IK")
	} else {
		r := e.Store.Latest(env.SKID())
		r.Revoked = true
		revokedCreated = r.Created
		k = 2
		vx.Tag("revoked", "SK")
	}
	// optionally another process has already rotated
	if vx.Choice("other_rotated", 2) == 1 {
		f2 := e.Factory(e.Policy(pol, env.CacheDefault))
		s2, _ := f2.GetSession("p0")
		tick()
		s2.Encrypt(env.Ctx, []byte{9})
		s2.Close()
		f2.Close()
	}
	// optionally another partition of the SAME factory is used first after the revocation (it shares the system-key
	// cache: its rotation moves the factory's "latest system key" while the revoked one is still cached unflagged)
	if vx.Param("otherpart") == 1 && vx.Choice("other_partition_first", 2) == 1 {
		so, _ := f.GetSession("p1")
		vx.ClockFreeze(false)
		vx.ClockMin(rs + k*I + 1)
		vx.Now()
		vx.ClockFreeze(freeze)
		_, err := so.Encrypt(env.Ctx, []byte{5})
		vx.Assert("C05.other_partition_ok", err == nil)
		so.Close()
		vx.Reach("C05.other_partition_first")
	}
	N := vx.Param("N")
	// faults=F: up to F metastore/KMS calls made by the post-revocation encrypts fail (any call, any position).
	// A faulted encrypt may return an error; one that returns a record is held to the same deadline.
	F := vx.Param("faults")
	faultsSoFar := func() int {
		return vx.Faulted("ext", "meta.Load") + vx.Faulted("ext", "meta.LoadLatest") + vx.Faulted("ext", "meta.Store") +
			vx.Faulted("ext", "kms.EncryptKey") + vx.Faulted("ext", "kms.DecryptKey")
	}
	if F > 0 {
		vx.FaultCap(F)
	}
	// reads=1: the session also keeps decrypting the record it wrote before the revocation (at arbitrary instants
	// between the encrypts); reads must not postpone the moment the revocation takes effect for new records
	reads := vx.Param("reads") == 1
	for i := 0; i < N; i++ {
		if reads {
			for j := 0; j < 2; j++ {
				if vx.Choice("read_old_record", 2) == 1 {
					tick()
					out, err := sess.Decrypt(env.Ctx, *first)
					vx.Assert("C05.old_record_still_decrypts", vx.And(err == nil, vx.BytesEq(out, []byte{7})))
					vx.Reach("C05.read_between_encrypts")
				}
			}
		}
		ts, tn := tick()
		before := faultsSoFar()
		storeFaultsBefore := vx.Faulted("ext", "meta.Store")
		if F > 0 {
			vx.FaultBudget("ext", F)
		}
		drr, err := sess.Encrypt(env.Ctx, []byte{byte(i)})
		vx.FaultBudget("ext", 0)
		faulted := faultsSoFar() > before
		vx.Assert("C05.encrypt_ok", err == nil || faulted)
		if err != nil {
			if faulted {
				vx.Reach("C05.faulted_encrypt_failed")
				continue
			}
			vx.Stop()
		}
		ik := drr.Key.ParentKeyMeta.Created
		row := e.Store.Row(env.IKID("p0"), ik)
		vx.Assert("C05.ik_row_present", row != nil)
		if row == nil {
			vx.Stop()
		}
		sk := row.ParentKeyMeta.Created
		vx.Assert("C05.sk_row_present", e.Store.Row(env.SKID(), sk) != nil)
		// premise: more than k intervals after the revocation, and a key with a later stamp can be created
		late := vx.Not(vx.TimeLE(ts, tn, rs+k*I, rn))
		canCreate := vx.TruncSec(ts, P) > revokedCreated
		// "a key with a later stamp can be created" includes that the metastore accepts it: when the insert of the
		// replacement key itself was made to fail, the SDK falls back to the newest stored key (the duplicate-key
		// path) and the proviso of the property does not hold for that call
		persisted := vx.Faulted("ext", "meta.Store") == storeFaultsBefore
		prem := vx.And(vx.And(late, canCreate), persisted)
		if which == 0 {
			vx.Assert("C05.revoked_ik_not_used_after_interval", vx.Implies(prem, ik != ik0))
		} else {
			vx.Assert("C05.revoked_sk_not_used_after_two_intervals", vx.Implies(prem, sk != sk0))
		}
		vx.Reach("C05.encrypt_after_revocation")
	}
	// records written under the revoked key remain decryptable
	vx.FaultCap(0)
	tick()
	out, err := sess.Decrypt(env.Ctx, *first)
	vx.Assert("C05.old_record_still_decrypts", vx.And(err == nil, vx.BytesEq(out, []byte{7})))
	vx.Reach("C05.end")
}
