// Package c11: secure memory protocol (both implementations) over the shadow page table.
package c11

import (
	"io"

	"github.com/godaddy/asherah/go/securememory"
	"github.com/godaddy/asherah/go/securememory/memguard"
	"github.com/godaddy/asherah/go/securememory/protectedmemory"

	"verifh/vx"
)

const (
	mapped = 1
	locked = 2
	pNone  = 1 << 2
	pRO    = 2 << 2
	pRW    = 6 << 2
)

func factory(impl int) securememory.SecretFactory {
	if impl == 0 {
		vx.Tag("impl", "protectedmemory")
		return new(protectedmemory.SecretFactory)
	}
	vx.Tag("impl", "memguard")
	return new(memguard.SecretFactory)
}

var sizes = []int{1, 2, 33}

// Sequential: one secret, a symbolic program of accesses, then Close and accesses after Close.
func Sequential() {
	f := factory(vx.Choice("impl", 2))
	n := sizes[vx.Choice("size", vx.Param("sizes"))]
	var s securememory.Secret
	var err error
	var keep []byte
	inuse0 := vx.Counter("secret.inuse")
	if vx.Choice("ctor", 2) == 0 {
		orig := vx.Bytes("secret", n)
		keep = append([]byte(nil), orig...)
		s, err = f.New(orig)
		vx.Assert("C11.new_ok", err == nil)
		vx.Assert("C11.source_wiped", vx.AllZero(orig))
	} else {
		s, err = f.CreateRandom(n)
		vx.Assert("C11.random_ok", err == nil)
		keep = vx.MemPeekOf(0)
		vx.Assert("C11.random_is_a_fresh_draw", vx.IsDraw(keep, vx.DrawCount()-1))
	}
	if err != nil {
		vx.Stop()
	}
	vx.Assert("C11.one_region", vx.MemRegions() == 1)
	vx.Assert("C11.idle_is_locked_noaccess", vx.MemStateOf(0) == mapped|locked|pNone)
	vx.Assert("C11.holds_original_bytes", vx.BytesEq(vx.MemPeekOf(0), keep))
	vx.Assert("C11.inuse_incremented", vx.Counter("secret.inuse") == inuse0+1)
	r := s.NewReader()
	L := vx.Param("L")
	closed := false
	for i := 0; i < L; i++ {
		switch vx.Choice("step", 6) {
		case 5:
			// a reader whose callback panics (recovered by its caller, or a Goexit such as t.FailNow): the reader
			// is gone, so the pages must be inaccessible again and later readers and Close must still work
			func() {
				defer func() { recover() }()
				if vx.Choice("panicking_reader", 2) == 0 {
					s.WithBytes(func(b []byte) error { panic("reader gave up") })
				} else {
					s.WithBytesFunc(func(b []byte) ([]byte, error) { panic("reader gave up") })
				}
			}()
			if !closed {
				vx.Assert("C11.noaccess_after_panicking_reader", vx.MemStateOf(0) == mapped|locked|pNone)
				vx.Reach("C11.reader_panicked")
			}
		case 0:
			called := false
			err := s.WithBytes(func(b []byte) error {
				called = true
				vx.Assert("C11.readonly_during_access", vx.MemStateOf(0) == mapped|locked|pRO)
				vx.Assert("C11.callback_sees_original", vx.BytesEq(b, keep))
				// nested access keeps it readable and leaves it readable
				_, e2 := s.WithBytesFunc(func(b2 []byte) ([]byte, error) {
					vx.Assert("C11.nested_sees_original", vx.BytesEq(b2, keep))
					return nil, nil
				})
				vx.Assert("C11.nested_ok", e2 == nil)
				vx.Assert("C11.still_readonly_after_nested", vx.MemStateOf(0) == mapped|locked|pRO)
				return nil
			})
			if closed {
				vx.Assert("C11.access_after_close_is_error", err != nil && !called)
			} else {
				vx.Assert("C11.access_ok", err == nil && called)
				vx.Assert("C11.noaccess_after_access", vx.MemStateOf(0) == mapped|locked|pNone)
			}
		case 1:
			out, err := s.WithBytesFunc(func(b []byte) ([]byte, error) {
				return append([]byte(nil), b...), nil
			})
			if closed {
				vx.Assert("C11.access_after_close_is_error", err != nil)
			} else {
				vx.Assert("C11.func_returns_original", vx.And(err == nil, vx.BytesEq(out, keep)))
				vx.Assert("C11.noaccess_after_access", vx.MemStateOf(0) == mapped|locked|pNone)
			}
		case 2:
			p := make([]byte, []int{0, 1, n, n + 1}[vx.Choice("plen", 4)])
			k, err := r.Read(p)
			if closed {
				vx.Assert("C11.read_after_close_is_error", err != nil && err != io.EOF && k == 0)
			} else {
				vx.Assert("C11.read_within_bounds", k <= len(p) && k <= n)
				vx.Assert("C11.noaccess_after_access", vx.MemStateOf(0) == mapped|locked|pNone)
			}
		case 3:
			vx.Assert("C11.isclosed_truthful", s.IsClosed() == closed)
		case 4:
			err := s.Close()
			vx.Assert("C11.close_ok", err == nil)
			if !closed {
				vx.Assert("C11.gone_after_close", vx.MemStateOf(0)&mapped == 0)
				vx.Assert("C11.wiped_before_unlock_and_free", vx.MemWipedBeforeRelease())
				ops := vx.MemOpsOf(0)
				vx.Assert("C11.close_order_rw_wipe_unlock_free", hasSuffix(ops, "protect6,unlock,free") || hasSuffix(ops, "protect6,wipe,unlock,free"))
				vx.Assert("C11.inuse_decremented", vx.Counter("secret.inuse") == inuse0)
				vx.Reach("C11.closed")
			}
			closed = true
		}
	}
	vx.Reach("C11.end")
}

func hasSuffix(s, suf string) bool { return len(s) >= len(suf) && s[len(s)-len(suf):] == suf }

// Concurrent: R readers and C closers on one secret under every schedule within the pre-emption bound.
func Concurrent() {
	f := factory(vx.Choice("impl", 2))
	orig := vx.Bytes("secret", 2)
	keep := append([]byte(nil), orig...)
	s, err := f.New(orig)
	vx.Assert("C11.new_ok", err == nil)
	R, C := vx.Param("R"), vx.Param("C")
	done := make(chan int, R+C)
	inside := 0 // readers between the start and the return of their WithBytes call
	for i := 0; i < R; i++ {
		go func() {
			inside++
			err := s.WithBytes(func(b []byte) error {
				vx.Assert("C11.reader_sees_original", vx.BytesEq(b, keep))
				vx.Yield()
				vx.Assert("C11.readable_while_any_reader_runs", vx.MemStateOf(0) == mapped|locked|pRO)
				vx.Assert("C11.reader_sees_original", vx.BytesEq(b, keep))
				return nil
			})
			inside--
			if inside == 0 {
				// no reader call is in progress any more: the pages are inaccessible again - or a Close that was
				// waiting is already at work on them (read-write for the wipe, then gone) - never left readable,
				// whether or not a Close is pending
				vx.Assert("C11.not_left_readable_when_last_reader_returns", vx.MemStateOf(0) != mapped|locked|pRO)
			}
			if err != nil {
				vx.Reach("C11.reader_refused_after_close_began")
			} else {
				vx.Reach("C11.reader_ran")
			}
			done <- 1
		}()
	}
	for i := 0; i < C; i++ {
		go func() {
			err := s.Close()
			vx.Assert("C11.concurrent_close_ok", err == nil)
			vx.Assert("C11.close_returns_only_when_gone", vx.MemStateOf(0)&mapped == 0)
			done <- 1
		}()
	}
	for i := 0; i < R+C; i++ {
		<-done
	}
	vx.Assert("C11.finally_gone", vx.MemStateOf(0)&mapped == 0)
	vx.Assert("C11.wiped_before_unlock_and_free", vx.MemWipedBeforeRelease())
	vx.Assert("C11.closed_flag", s.IsClosed())
	vx.Reach("C11.concurrent_end")
}
