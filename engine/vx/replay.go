package vx

import (
	"encoding/json"
	"os"
	"strings"
)

// Native replay state. Filled by LoadModel (replay tests); with no model loaded
// every input is zero and every decision takes alternative 0.

type ChoiceRec struct {
	Kind   string
	Chosen int
}

type Model struct {
	Ints    map[string][]int64 // name -> values in call order
	Bools   map[string][]bool
	Bytes   map[string][][]byte
	Strings map[string][]string
	Choices []ChoiceRec // harness-visible decisions in order
	Clock   [][2]int64
	Params  map[string]int
}

// LoadModelFile reads a Model (JSON) written by `gosx replay`.
func LoadModelFile(path string) error {
	b, err := os.ReadFile(path)
	if err != nil {
		return err
	}
	m := &Model{}
	if err := json.Unmarshal(b, m); err != nil {
		return err
	}
	LoadModel(m)
	return nil
}

func ModelLoaded() bool { return model != nil }

// Desync lists decisions whose kind did not match the recorded one.
var Desync []string

var (
	model        *Model
	cursor       = map[string]int{}
	decPos       int
	clockPos     int
	frozen       bool
	lastClock    [2]int64
	Failed       []string
	Reached      = map[string]bool{}
	budgets      = map[string]int{}
	faulted      = map[string]int{}
	faultCap     int
	faultCapSet  bool
	OnAssumeFail func()
)

func LoadModel(m *Model) {
	model = m
	cursor = map[string]int{}
	decPos, clockPos = 0, 0
	Failed = nil
	Reached = map[string]bool{}
}

func nextInt(name string, w int) uint64 {
	if model == nil {
		return 0
	}
	k := cursor["i:"+name]
	cursor["i:"+name] = k + 1
	if vs := model.Ints[name]; k < len(vs) {
		return uint64(vs[k])
	}
	return 0
}

func nextBool(name string) bool {
	if model == nil {
		return false
	}
	k := cursor["b:"+name]
	cursor["b:"+name] = k + 1
	if vs := model.Bools[name]; k < len(vs) {
		return vs[k]
	}
	return false
}

func nextBytes(name string, n int) []byte {
	out := make([]byte, n)
	if model == nil {
		return out
	}
	k := cursor["y:"+name]
	cursor["y:"+name] = k + 1
	if vs := model.Bytes[name]; k < len(vs) {
		copy(out, vs[k])
	}
	return out
}

func nextString(name string) string {
	if model == nil {
		return ""
	}
	k := cursor["s:"+name]
	cursor["s:"+name] = k + 1
	if vs := model.Strings[name]; k < len(vs) {
		return vs[k]
	}
	return ""
}

func nextDecision(kind string, n int) int {
	if model == nil || n <= 1 {
		return 0
	}
	for decPos < len(model.Choices) && (strings.HasPrefix(model.Choices[decPos].Kind, "sched:") || model.Choices[decPos].Kind == "maporder" || model.Choices[decPos].Kind == "select") {
		decPos++
	}
	if decPos >= len(model.Choices) {
		// faults beyond the recorded vector did not happen
		return 0
	}
	c := model.Choices[decPos]
	if strings.HasPrefix(kind, "fault:") && c.Kind != kind {
		// the symbolic run asked no fault question here (budget exhausted): no fault
		return 0
	}
	decPos++
	if c.Kind != kind {
		Desync = append(Desync, kind+"!="+c.Kind)
	}
	if c.Chosen >= n {
		return 0
	}
	return c.Chosen
}

func param(name string) int {
	if model != nil {
		return model.Params[name]
	}
	return 0
}

func assumeFailed() {
	if OnAssumeFail != nil {
		OnAssumeFail()
	}
	panic("vx: assumption failed during native replay")
}

func assertNative(label string, c bool) {
	if !c {
		Failed = append(Failed, label)
	}
}

func reachNative(label string)  { Reached[label] = true }
func stopNative()               { panic("vx.Stop") }
func setBudget(d string, n int) { budgets[d] = n }

// faultNative mirrors the executor's maybeFault: the question is only asked while the domain has budget left and the
// global cap is not used up, and an injected fault is counted.
func faultNative(domain, site string) bool {
	if model == nil || budgets[domain] <= 0 {
		return false
	}
	if faultCapSet && faultCap <= 0 {
		return false
	}
	if nextDecision("fault:"+domain+":"+site, 2) == 1 {
		budgets[domain]--
		faultCap--
		faulted[domain+":"+site]++
		return true
	}
	return false
}

func clockNow() (int64, int64) {
	if model == nil {
		return 0, 0
	}
	if frozen && clockPos > 0 {
		return lastClock[0], lastClock[1]
	}
	if clockPos < len(model.Clock) {
		lastClock = model.Clock[clockPos]
	}
	clockPos++
	return lastClock[0], lastClock[1]
}

// ClockRead is what the rewritten time.Now() of the packages under test calls during replay.
func ClockRead() (int64, int64) { return clockNow() }

func clockFreeze(on bool) { frozen = on }
