// Package vxclock is what the rewritten time.Now() calls of the packages under test use during native replay.
package vxclock

import (
	"time"

	"verifh/vx"
)

func Now() time.Time {
	if !vx.ModelLoaded() {
		return time.Now()
	}
	s, n := vx.ClockRead()
	return time.Unix(s, n)
}
