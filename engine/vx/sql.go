package vx

import "database/sql"

// SQLDB returns a *sql.DB bound to the executor's relational-database model (one table with the documented schema,
// statements in the given dialect: "mysql", "postgres" or "oracle"). Symbolic runs only: natively there is no
// database, the functions below are inert and harnesses that use them are registered with no_native_replay.
func SQLDB(dialect string) *sql.DB { return nil }

// SQLRows is the number of rows in the model table.
func SQLRows(db *sql.DB) int { return 0 }

// SQLRowText is the key_record column of row i (insertion order).
func SQLRowText(db *sql.DB, i int) string { return "" }

// SQLInsertRaw inserts a row behind the SDK's back (the "reference implementation writes" direction).
func SQLInsertRaw(db *sql.DB, id string, createdUnix int64, keyRecord string) {}

// SQLRowID / SQLRowCreated are the id column and the created column (unix seconds) of row i.
func SQLRowID(db *sql.DB, i int) string     { return "" }
func SQLRowCreated(db *sql.DB, i int) int64 { return 0 }
