package vx

import (
	"bytes"
	"encoding/base64"
	"encoding/json"
	"strconv"
	"strings"
)

func jsonShapeNative(b []byte) string {
	dec := json.NewDecoder(bytes.NewReader(b))
	dec.UseNumber()
	var sb strings.Builder
	if err := shapeValue(dec, &sb); err != nil {
		return "<not-json>"
	}
	return sb.String()
}

func shapeValue(dec *json.Decoder, sb *strings.Builder) error {
	tok, err := dec.Token()
	if err != nil {
		return err
	}
	switch t := tok.(type) {
	case json.Delim:
		switch t {
		case '{':
			sb.WriteByte('{')
			first := true
			for dec.More() {
				k, err := dec.Token()
				if err != nil {
					return err
				}
				if !first {
					sb.WriteByte(',')
				}
				first = false
				sb.WriteString(strconv.Quote(k.(string)) + ":")
				if err := shapeValue(dec, sb); err != nil {
					return err
				}
			}
			dec.Token()
			sb.WriteByte('}')
		case '[':
			sb.WriteByte('[')
			first := true
			for dec.More() {
				if !first {
					sb.WriteByte(',')
				}
				first = false
				if err := shapeValue(dec, sb); err != nil {
					return err
				}
			}
			dec.Token()
			sb.WriteByte(']')
		}
	case string:
		// base64 payloads and plain strings are indistinguishable in JSON text; the harnesses only use
		// strings that are not valid base64 for plain-string fields
		if _, err := base64.StdEncoding.DecodeString(t); err == nil && len(t)%4 == 0 && len(t) > 0 {
			sb.WriteString("#base64")
		} else {
			sb.WriteString("#string")
		}
	case json.Number:
		sb.WriteString("#number")
	case bool:
		sb.WriteString(strconv.FormatBool(t))
	case nil:
		sb.WriteString("null")
	}
	return nil
}
