// Package vx holds the harness intrinsics. gosx intercepts every call to
// verifh/vx.* by name before looking at the body; the bodies here are the
// native (replay) implementations, fed from a model file (see replay.go).
package vx

// ---- inputs ----

func Byte(name string) byte                 { return byte(nextInt(name, 8)) }
func Int64(name string) int64               { return int64(nextInt(name, 64)) }
func Timestamp(name string) int64           { return int64(nextInt(name, 64)) }
func Int(name string) int                   { return int(int64(nextInt(name, 64))) }
func Bool(name string) bool                 { return nextBool(name) }
func Bytes(name string, n int) []byte       { return nextBytes(name, n) }
func BytesUpTo(name string, max int) []byte { return nextBytes(name, nextDecision("len:"+name, max+1)) }
func Choice(name string, n int) int         { return nextDecision("choice:"+name, n) }
func String(name string, maxLen int) string { return nextString(name) }
func StrLen(s string) int                   { return len(s) }
func HasPrefix(s, prefix string) bool       { return len(s) >= len(prefix) && s[:len(prefix)] == prefix }
func Param(name string) int                 { return param(name) }

// ---- assumptions / assertions ----

func Assume(c bool) {
	if !c {
		assumeFailed()
	}
}
func Assert(label string, c bool)         { assertNative(label, c) }
func Reach(label string)                  { reachNative(label) }
func Tag(k, v string)                     {}
func KnownClass(label, id string, c bool) {}
func Stop()                               { stopNative() }

// ---- scheduling ----

func Yield()            {}
func Drain()            {}
func NoPreempt(on bool) {}

// PreemptWithin restricts pre-emptive thread switches to the time the running goroutine executes under a function
// whose qualified name contains fn ("" lifts the restriction). Switches when a goroutine blocks or ends are unaffected.
func PreemptWithin(fn string) {}

// SchedOnlyAtYield restricts pre-emptive scheduling points to vx.Yield (blocking operations still switch).
func SchedOnlyAtYield(on bool) {}

// ---- faults ----

func Fault(domain, site string) bool   { return faultNative(domain, site) }
func FaultBudget(domain string, n int) { setBudget(domain, n) }

// FaultCap bounds the total number of injected faults across all domains (negative: no cap).
func FaultCap(n int) { faultCap, faultCapSet = n, n >= 0 }

// Faulted reports how many faults were injected at domain:site so far.
func Faulted(domain, site string) int { return faulted[domain+":"+site] }
func MapOrderAll(on bool)             {}

// ---- non-forking boolean combinators ----

func And(a, b bool) bool     { return a && b }
func Or(a, b bool) bool      { return a || b }
func Not(a bool) bool        { return !a }
func Implies(a, b bool) bool { return !a || b }
func BytesEq(a, b []byte) bool {
	if len(a) != len(b) {
		return false
	}
	for i := range a {
		if a[i] != b[i] {
			return false
		}
	}
	return true
}
func AllZero(a []byte) bool {
	for _, x := range a {
		if x != 0 {
			return false
		}
	}
	return true
}
func Ite64(c bool, a, b int64) int64 {
	if c {
		return a
	}
	return b
}

// ---- clock ----

func Now() (sec, nsec int64) { return clockNow() }
func ClockMin(sec int64)     {}
func ClockMax(sec int64)     {}
func ClockUnbound()          {}
func ClockFreeze(on bool)    { clockFreeze(on) }
func TruncSec(sec, m int64) int64 {
	if m <= 1 {
		return sec
	}
	return sec - sec%m
}
func TimeLE(s1, n1, s2, n2 int64) bool { return s1 < s2 || (s1 == s2 && n1 <= n2) }

// ---- model introspection (symbolic runs only; natively they are inert) ----

// FreshDraw reports whether every byte of b is a byte produced by the modelled CSPRNG that no earlier FreshDraw
// call has seen (symbolic runs; natively true). RandDistinctAxiom switches the "draws never repeat" axiom off for
// harnesses that only track provenance.
func FreshDraw(b []byte) bool    { return true }
func RandDistinctAxiom(on bool) {}
func DrawCount() int                    { return 0 }
func IsDraw(b []byte, k int) bool       { return true }
func DrawIndexOf(b []byte) int          { return -1 }
func SameTerms(a, b []byte) bool        { return BytesEq(a, b) }
func DrawLen(k int) int                 { return 0 }
func SealCount() int                    { return 0 }
func SealKey(i int) []byte              { return nil }
func SealNonce(i int) []byte            { return nil }
func SealPlain(i int) []byte            { return nil }
func SealOut(i int) []byte              { return nil }
func DependsOn(out, secret []byte) bool { return false }
func IsConcrete(b []byte) bool          { return true }
func Counter(name string) int64         { return 0 }

// ---- shadow page table introspection (symbolic runs only) ----

func MemProt(b []byte) int        { return 0 }
func MemLocked(b []byte) bool     { return false }
func MemMapped(b []byte) bool     { return false }
func MemRegions() int             { return 0 }
func MemCount(what int) int       { return 0 }
func MemWipedBeforeRelease() bool { return true }
func MemOps(b []byte) string      { return "" }
func MemOpsOf(k int) string       { return "" }
func MemPeek(b []byte) []byte     { return nil }
func MemPeekOf(k int) []byte      { return nil }
func MemStateOf(k int) int        { return 0 }

// CalledFrom reports how many times repo function `callee` was called directly from repo function `caller`
// on this path (short function names). Symbolic runs only; natively 0.
func CalledFrom(callee, caller string) int { return 0 }

// JSONShape renders the structure of a JSON document with leaves abstracted to #string/#number/#base64/true/false/null
// (object members in document order). Symbolically it reads the model's abstract tree; natively it parses the bytes.
func JSONShape(b []byte) string { return jsonShapeNative(b) }
