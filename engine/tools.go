//go:build tools

package verifh

import (
	_ "github.com/godaddy/asherah/go/appencryption"
	_ "github.com/godaddy/asherah/go/appencryption/pkg/crypto/aead"
	_ "github.com/godaddy/asherah/go/appencryption/pkg/kms"
	_ "github.com/godaddy/asherah/go/appencryption/pkg/persistence"
	_ "github.com/godaddy/asherah/go/appencryption/plugins/aws-v1/kms"
	_ "github.com/godaddy/asherah/go/appencryption/plugins/aws-v1/persistence"
	_ "github.com/godaddy/asherah/go/appencryption/plugins/aws-v2/dynamodb/metastore"
	_ "github.com/godaddy/asherah/go/appencryption/plugins/aws-v2/kms"
	_ "github.com/godaddy/asherah/go/securememory/memguard"
	_ "github.com/godaddy/asherah/go/securememory/protectedmemory"
	_ "github.com/godaddy/asherah/server/go/pkg/server"
	_ "golang.org/x/tools/go/packages"
	_ "golang.org/x/tools/go/ssa"
	_ "golang.org/x/tools/go/ssa/ssautil"
)
