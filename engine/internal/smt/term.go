// Package smt: hash-consed SMT-LIB2 terms with light simplification and a
// DAG-aware printer (shared large subterms become define-fun).
package smt

import (
	"fmt"
	"math/bits"
	"sort"
	"strconv"
	"strings"
)

type Kind uint8

const (
	KBool Kind = iota
	KBV
	KStr
	KInt
)

type Sort struct {
	K Kind
	W int
}

var BoolSort = Sort{K: KBool}
var StrSort = Sort{K: KStr}
var IntSort = Sort{K: KInt}

func BVSort(w int) Sort { return Sort{K: KBV, W: w} }

func (s Sort) String() string {
	switch s.K {
	case KBool:
		return "Bool"
	case KBV:
		return fmt.Sprintf("(_ BitVec %d)", s.W)
	case KStr:
		return "String"
	case KInt:
		return "Int"
	}
	return "?"
}

// Term is an immutable hash-consed node.
type Term struct {
	ID   int
	Op   string // "var", "bv", "true", "false", "str", "int", or an SMT operator
	Args []*Term
	Sort Sort
	Name string // var name / string literal
	Val  uint64 // bv / int constant
	Size int    // tree size (saturating)
}

func (t *Term) IsConst() bool {
	switch t.Op {
	case "bv", "true", "false", "str", "int":
		return true
	}
	return false
}

// Table is the hash-consing table. One per worker; not safe for concurrent use.
type Table struct {
	byKey map[string]*Term
	next  int
	True  *Term
	False *Term
}

func NewTable() *Table {
	tb := &Table{byKey: map[string]*Term{}}
	tb.True = tb.mk("true", BoolSort, "", 0)
	tb.False = tb.mk("false", BoolSort, "", 0)
	return tb
}

func (tb *Table) mk(op string, s Sort, name string, val uint64, args ...*Term) *Term {
	var sb strings.Builder
	sb.WriteString(op)
	sb.WriteByte('|')
	sb.WriteString(strconv.Itoa(int(s.K)))
	sb.WriteByte('.')
	sb.WriteString(strconv.Itoa(s.W))
	sb.WriteByte('|')
	sb.WriteString(name)
	sb.WriteByte('|')
	sb.WriteString(strconv.FormatUint(val, 16))
	for _, a := range args {
		sb.WriteByte(',')
		sb.WriteString(strconv.Itoa(a.ID))
	}
	k := sb.String()
	if t, ok := tb.byKey[k]; ok {
		return t
	}
	size := 1
	for _, a := range args {
		size += a.Size
		if size > 1<<30 {
			size = 1 << 30
		}
	}
	t := &Term{ID: tb.next, Op: op, Args: append([]*Term(nil), args...), Sort: s, Name: name, Val: val, Size: size}
	tb.next++
	tb.byKey[k] = t
	return t
}

func mask(w int) uint64 {
	if w >= 64 {
		return ^uint64(0)
	}
	return (uint64(1) << uint(w)) - 1
}

func (tb *Table) Var(name string, s Sort) *Term { return tb.mk("var", s, name, 0) }
func (tb *Table) BV(w int, v uint64) *Term      { return tb.mk("bv", BVSort(w), "", v&mask(w)) }
func (tb *Table) Bool(b bool) *Term {
	if b {
		return tb.True
	}
	return tb.False
}
func (tb *Table) StrLit(s string) *Term { return tb.mk("str", StrSort, s, 0) }
func (tb *Table) IntLit(v int64) *Term  { return tb.mk("int", IntSort, "", uint64(v)) }

func (tb *Table) Not(a *Term) *Term {
	switch {
	case a == tb.True:
		return tb.False
	case a == tb.False:
		return tb.True
	case a.Op == "not":
		return a.Args[0]
	}
	return tb.mk("not", BoolSort, "", 0, a)
}

func (tb *Table) And(as ...*Term) *Term {
	var out []*Term
	seen := map[*Term]bool{}
	for _, a := range as {
		if a == tb.False {
			return tb.False
		}
		if a == tb.True || seen[a] {
			continue
		}
		if a.Op == "and" {
			for _, b := range a.Args {
				if !seen[b] {
					seen[b] = true
					out = append(out, b)
				}
			}
			continue
		}
		seen[a] = true
		out = append(out, a)
	}
	for _, a := range out {
		if seen[tb.Not(a)] && a.Op != "not" {
			return tb.False
		}
	}
	switch len(out) {
	case 0:
		return tb.True
	case 1:
		return out[0]
	}
	return tb.mk("and", BoolSort, "", 0, out...)
}

func (tb *Table) Or(as ...*Term) *Term {
	var out []*Term
	seen := map[*Term]bool{}
	for _, a := range as {
		if a == tb.True {
			return tb.True
		}
		if a == tb.False || seen[a] {
			continue
		}
		if a.Op == "or" {
			for _, b := range a.Args {
				if !seen[b] {
					seen[b] = true
					out = append(out, b)
				}
			}
			continue
		}
		seen[a] = true
		out = append(out, a)
	}
	for _, a := range out {
		if seen[tb.Not(a)] && a.Op != "not" {
			return tb.True
		}
	}
	switch len(out) {
	case 0:
		return tb.False
	case 1:
		return out[0]
	}
	return tb.mk("or", BoolSort, "", 0, out...)
}

func (tb *Table) Implies(a, b *Term) *Term { return tb.Or(tb.Not(a), b) }

func (tb *Table) Ite(c, a, b *Term) *Term {
	switch {
	case c == tb.True:
		return a
	case c == tb.False:
		return b
	case a == b:
		return a
	}
	if a.Sort.K == KBool {
		if a == tb.True && b == tb.False {
			return c
		}
		if a == tb.False && b == tb.True {
			return tb.Not(c)
		}
		if a == tb.True {
			return tb.Or(c, b)
		}
		if b == tb.False {
			return tb.And(c, a)
		}
		if a == tb.False {
			return tb.And(tb.Not(c), b)
		}
		if b == tb.True {
			return tb.Or(tb.Not(c), a)
		}
	}
	return tb.mk("ite", a.Sort, "", 0, c, a, b)
}

func (tb *Table) Eq(a, b *Term) *Term {
	if a == b {
		return tb.True
	}
	if a.Sort != b.Sort {
		panic(fmt.Sprintf("smt.Eq: sort mismatch %v vs %v (%s, %s)", a.Sort, b.Sort, a.Op, b.Op))
	}
	if a.IsConst() && b.IsConst() {
		return tb.False // distinct hash-consed constants of one sort
	}
	if a.Sort.K == KBool {
		if a == tb.True {
			return b
		}
		if b == tb.True {
			return a
		}
		if a == tb.False {
			return tb.Not(b)
		}
		if b == tb.False {
			return tb.Not(a)
		}
	}
	// eq(ite(c,k1,k2), k) with constants folds to c / not c
	if a.Op == "ite" && b.IsConst() && a.Args[1].IsConst() && a.Args[2].IsConst() {
		return tb.Ite(a.Args[0], tb.Eq(a.Args[1], b), tb.Eq(a.Args[2], b))
	}
	if b.Op == "ite" && a.IsConst() && b.Args[1].IsConst() && b.Args[2].IsConst() {
		return tb.Ite(b.Args[0], tb.Eq(b.Args[1], a), tb.Eq(b.Args[2], a))
	}
	if a.ID > b.ID {
		a, b = b, a
	}
	return tb.mk("=", BoolSort, "", 0, a, b)
}

// BVBin builds a binary bit-vector operator with constant folding.
// op is one of bvadd bvsub bvmul bvand bvor bvxor bvshl bvlshr bvashr bvudiv bvurem bvsdiv bvsrem.
func (tb *Table) BVBin(op string, a, b *Term) *Term {
	w := a.Sort.W
	if a.Sort != b.Sort || a.Sort.K != KBV {
		panic(fmt.Sprintf("smt.BVBin %s: sort mismatch %v vs %v", op, a.Sort, b.Sort))
	}
	if a.Op == "bv" && b.Op == "bv" {
		if v, ok := foldBV(op, w, a.Val, b.Val); ok {
			return tb.BV(w, v)
		}
	}
	switch op {
	case "bvadd":
		if a.Op == "bv" && a.Val == 0 {
			return b
		}
		if b.Op == "bv" && b.Val == 0 {
			return a
		}
		// (x + c1) + c2
		if b.Op == "bv" && a.Op == "bvadd" && a.Args[1].Op == "bv" {
			return tb.BVBin("bvadd", a.Args[0], tb.BV(w, a.Args[1].Val+b.Val))
		}
		if a.Op == "bv" {
			a, b = b, a
		}
	case "bvsub":
		if b.Op == "bv" {
			return tb.BVBin("bvadd", a, tb.BV(w, -b.Val))
		}
		if a == b {
			return tb.BV(w, 0)
		}
	case "bvand":
		if a.Op == "bv" && a.Val == mask(w) {
			return b
		}
		if b.Op == "bv" && b.Val == mask(w) {
			return a
		}
		if (a.Op == "bv" && a.Val == 0) || (b.Op == "bv" && b.Val == 0) {
			return tb.BV(w, 0)
		}
	case "bvor", "bvxor":
		if a.Op == "bv" && a.Val == 0 {
			return b
		}
		if b.Op == "bv" && b.Val == 0 {
			return a
		}
	case "bvmul":
		if a.Op == "bv" && a.Val == 1 {
			return b
		}
		if b.Op == "bv" && b.Val == 1 {
			return a
		}
		if (a.Op == "bv" && a.Val == 0) || (b.Op == "bv" && b.Val == 0) {
			return tb.BV(w, 0)
		}
	case "bvshl", "bvlshr", "bvashr":
		if b.Op == "bv" && b.Val == 0 {
			return a
		}
	}
	return tb.mk(op, a.Sort, "", 0, a, b)
}

func sext(w int, v uint64) int64 {
	if w >= 64 {
		return int64(v)
	}
	sh := uint(64 - w)
	return int64(v<<sh) >> sh
}

func foldBV(op string, w int, a, b uint64) (uint64, bool) {
	m := mask(w)
	switch op {
	case "bvadd":
		return (a + b) & m, true
	case "bvsub":
		return (a - b) & m, true
	case "bvmul":
		return (a * b) & m, true
	case "bvand":
		return a & b, true
	case "bvor":
		return a | b, true
	case "bvxor":
		return a ^ b, true
	case "bvshl":
		if b >= uint64(w) {
			return 0, true
		}
		return (a << b) & m, true
	case "bvlshr":
		if b >= uint64(w) {
			return 0, true
		}
		return a >> b, true
	case "bvashr":
		s := sext(w, a)
		if b >= uint64(w) {
			b = uint64(w - 1)
		}
		return uint64(s>>b) & m, true
	case "bvudiv":
		if b == 0 {
			return m, true
		}
		return a / b, true
	case "bvurem":
		if b == 0 {
			return a, true
		}
		return a % b, true
	case "bvsdiv":
		if b == 0 {
			return 0, false
		}
		sa, sb := sext(w, a), sext(w, b)
		if sb == -1 {
			return uint64(-sa) & m, true
		}
		return uint64(sa/sb) & m, true
	case "bvsrem":
		if b == 0 {
			return 0, false
		}
		sa, sb := sext(w, a), sext(w, b)
		if sb == -1 {
			return 0, true
		}
		return uint64(sa%sb) & m, true
	}
	return 0, false
}

// BVCmp builds bvult bvule bvslt bvsle (others are derived).
func (tb *Table) BVCmp(op string, a, b *Term) *Term {
	if a.Sort != b.Sort || a.Sort.K != KBV {
		panic(fmt.Sprintf("smt.BVCmp %s: sort mismatch %v vs %v", op, a.Sort, b.Sort))
	}
	w := a.Sort.W
	switch op {
	case "bvugt":
		return tb.BVCmp("bvult", b, a)
	case "bvuge":
		return tb.BVCmp("bvule", b, a)
	case "bvsgt":
		return tb.BVCmp("bvslt", b, a)
	case "bvsge":
		return tb.BVCmp("bvsle", b, a)
	}
	if a.Op == "bv" && b.Op == "bv" {
		switch op {
		case "bvult":
			return tb.Bool(a.Val < b.Val)
		case "bvule":
			return tb.Bool(a.Val <= b.Val)
		case "bvslt":
			return tb.Bool(sext(w, a.Val) < sext(w, b.Val))
		case "bvsle":
			return tb.Bool(sext(w, a.Val) <= sext(w, b.Val))
		}
	}
	if a == b {
		return tb.Bool(op == "bvule" || op == "bvsle")
	}
	return tb.mk(op, BoolSort, "", 0, a, b)
}

func (tb *Table) BVNot(a *Term) *Term {
	if a.Op == "bv" {
		return tb.BV(a.Sort.W, ^a.Val)
	}
	return tb.mk("bvnot", a.Sort, "", 0, a)
}

func (tb *Table) BVNeg(a *Term) *Term {
	if a.Op == "bv" {
		return tb.BV(a.Sort.W, -a.Val)
	}
	return tb.mk("bvneg", a.Sort, "", 0, a)
}

// Extract bits [hi:lo].
func (tb *Table) Extract(hi, lo int, a *Term) *Term {
	if lo == 0 && hi == a.Sort.W-1 {
		return a
	}
	if a.Op == "bv" {
		return tb.BV(hi-lo+1, a.Val>>uint(lo))
	}
	if (a.Op == "zext" || a.Op == "sext") && lo == 0 && hi < a.Args[0].Sort.W {
		return tb.Extract(hi, 0, a.Args[0])
	}
	return tb.mk("extract", BVSort(hi-lo+1), "", uint64(hi)<<32|uint64(lo), a)
}

func (tb *Table) ZExt(w int, a *Term) *Term {
	if a.Sort.W == w {
		return a
	}
	if a.Sort.W > w {
		return tb.Extract(w-1, 0, a)
	}
	if a.Op == "bv" {
		return tb.BV(w, a.Val)
	}
	return tb.mk("zext", BVSort(w), "", uint64(w-a.Sort.W), a)
}

func (tb *Table) SExt(w int, a *Term) *Term {
	if a.Sort.W == w {
		return a
	}
	if a.Sort.W > w {
		return tb.Extract(w-1, 0, a)
	}
	if a.Op == "bv" {
		return tb.BV(w, uint64(sext(a.Sort.W, a.Val)))
	}
	return tb.mk("sext", BVSort(w), "", uint64(w-a.Sort.W), a)
}

func (tb *Table) Concat(a, b *Term) *Term {
	if a.Op == "bv" && b.Op == "bv" && a.Sort.W+b.Sort.W <= 64 {
		return tb.BV(a.Sort.W+b.Sort.W, a.Val<<uint(b.Sort.W)|b.Val)
	}
	return tb.mk("concat", BVSort(a.Sort.W+b.Sort.W), "", 0, a, b)
}

// ---- strings / ints (used only by the id-format checks) ----

func (tb *Table) StrConcat(as ...*Term) *Term {
	var out []*Term
	for _, a := range as {
		if a.Op == "str.++" {
			out = append(out, a.Args...)
			continue
		}
		if a.Op == "str" && a.Name == "" {
			continue
		}
		if n := len(out); n > 0 && out[n-1].Op == "str" && a.Op == "str" {
			out[n-1] = tb.StrLit(out[n-1].Name + a.Name)
			continue
		}
		out = append(out, a)
	}
	switch len(out) {
	case 0:
		return tb.StrLit("")
	case 1:
		return out[0]
	}
	return tb.mk("str.++", StrSort, "", 0, out...)
}

func (tb *Table) StrLen(a *Term) *Term {
	if a.Op == "str" {
		return tb.IntLit(int64(len(a.Name)))
	}
	return tb.mk("str.len", IntSort, "", 0, a)
}
func (tb *Table) StrPrefixOf(p, s *Term) *Term {
	if p.Op == "str" && s.Op == "str" {
		return tb.Bool(strings.HasPrefix(s.Name, p.Name))
	}
	return tb.mk("str.prefixof", BoolSort, "", 0, p, s)
}
func (tb *Table) StrContains(s, sub *Term) *Term {
	return tb.mk("str.contains", BoolSort, "", 0, s, sub)
}
func (tb *Table) StrFromInt(i *Term) *Term { return tb.mk("str.from_int", StrSort, "", 0, i) }
func (tb *Table) BV2Nat(a *Term) *Term     { return tb.mk("bv2nat", IntSort, "", 0, a) }
func (tb *Table) IntCmp(op string, a, b *Term) *Term {
	switch op {
	case ">":
		return tb.IntCmp("<", b, a)
	case ">=":
		return tb.IntCmp("<=", b, a)
	}
	if a.Op == "int" && b.Op == "int" {
		x, y := int64(a.Val), int64(b.Val)
		if op == "<" {
			return tb.Bool(x < y)
		}
		return tb.Bool(x <= y)
	}
	if a == b {
		return tb.Bool(op == "<=")
	}
	return tb.mk(op, BoolSort, "", 0, a, b)
}
func (tb *Table) IntBin(op string, a, b *Term) *Term {
	if a.Op == "int" && b.Op == "int" {
		x, y := int64(a.Val), int64(b.Val)
		switch op {
		case "+":
			return tb.IntLit(x + y)
		case "-":
			return tb.IntLit(x - y)
		case "*":
			return tb.IntLit(x * y)
		}
	}
	if (op == "+" || op == "-") && b.Op == "int" && b.Val == 0 {
		return a
	}
	if op == "+" && a.Op == "int" && a.Val == 0 {
		return b
	}
	// (x + c1) + c2
	if (op == "+" || op == "-") && b.Op == "int" && a.Op == "+" && len(a.Args) == 2 && a.Args[1].Op == "int" {
		c := int64(a.Args[1].Val)
		if op == "+" {
			c += int64(b.Val)
		} else {
			c -= int64(b.Val)
		}
		return tb.IntBin("+", a.Args[0], tb.IntLit(c))
	}
	if op == "-" && b.Op == "int" {
		return tb.mk("+", IntSort, "", 0, a, tb.IntLit(-int64(b.Val)))
	}
	return tb.mk(op, IntSort, "", 0, a, b)
}

// Int2BV converts a mathematical integer to a bit-vector (two's complement, mod 2^w).
func (tb *Table) Int2BV(w int, i *Term) *Term {
	if i.Op == "int" {
		return tb.BV(w, i.Val)
	}
	return tb.mk("int2bv", BVSort(w), "", uint64(w), i)
}

// ---- printing ----

// Printer prints terms for one solver session; it remembers which variables
// were declared and which shared subterms were given a define-fun.
type Printer struct {
	declared map[*Term]bool
	defined  map[*Term]bool
	// ShareMin: subterms at least this big get a define-fun (0 disables).
	ShareMin int
}

func NewPrinter() *Printer {
	return &Printer{declared: map[*Term]bool{}, defined: map[*Term]bool{}, ShareMin: 12}
}

func (p *Printer) Reset() {
	p.declared = map[*Term]bool{}
	p.defined = map[*Term]bool{}
}

func escStr(s string) string {
	var sb strings.Builder
	sb.WriteByte('"')
	for i := 0; i < len(s); i++ {
		c := s[i]
		switch {
		case c == '"':
			sb.WriteString(`""`)
		case c < 0x20 || c > 0x7e || c == '\\':
			fmt.Fprintf(&sb, `\u{%x}`, c)
		default:
			sb.WriteByte(c)
		}
	}
	sb.WriteByte('"')
	return sb.String()
}

func symName(n string) string {
	ok := true
	for i := 0; i < len(n); i++ {
		c := n[i]
		if !(c >= 'a' && c <= 'z' || c >= 'A' && c <= 'Z' || c >= '0' && c <= '9' || c == '_' || c == '.' || c == '!' || c == '$') {
			ok = false
			break
		}
	}
	if ok && len(n) > 0 && !(n[0] >= '0' && n[0] <= '9') {
		return n
	}
	return "|" + strings.NewReplacer("|", "!", "\\", "!").Replace(n) + "|"
}

// Emit returns the preamble (declarations and definitions not yet sent in this
// session) and the expression text for t.
func (p *Printer) Emit(t *Term) (pre []string, expr string) {
	var sb strings.Builder
	p.write(&sb, t, &pre, true)
	return pre, sb.String()
}

func (p *Printer) write(sb *strings.Builder, t *Term, pre *[]string, top bool) {
	switch t.Op {
	case "var":
		if !p.declared[t] {
			p.declared[t] = true
			*pre = append(*pre, fmt.Sprintf("(declare-const %s %s)", symName(t.Name), t.Sort))
		}
		sb.WriteString(symName(t.Name))
		return
	case "true", "false":
		sb.WriteString(t.Op)
		return
	case "bv":
		if t.Sort.W%4 == 0 {
			fmt.Fprintf(sb, "#x%0*x", t.Sort.W/4, t.Val)
		} else {
			fmt.Fprintf(sb, "#b%0*b", t.Sort.W, t.Val)
		}
		return
	case "str":
		sb.WriteString(escStr(t.Name))
		return
	case "int":
		v := int64(t.Val)
		if v == -1<<63 {
			sb.WriteString("(- 9223372036854775808)")
		} else if v < 0 {
			fmt.Fprintf(sb, "(- %d)", -v)
		} else {
			fmt.Fprintf(sb, "%d", v)
		}
		return
	}
	if p.ShareMin > 0 && t.Size >= p.ShareMin && !top {
		if !p.defined[t] {
			var b strings.Builder
			p.writeNode(&b, t, pre)
			p.defined[t] = true
			*pre = append(*pre, fmt.Sprintf("(define-fun t!%d () %s %s)", t.ID, t.Sort, b.String()))
		}
		fmt.Fprintf(sb, "t!%d", t.ID)
		return
	}
	p.writeNode(sb, t, pre)
}

func (p *Printer) writeNode(sb *strings.Builder, t *Term, pre *[]string) {
	switch t.Op {
	case "extract":
		fmt.Fprintf(sb, "((_ extract %d %d) ", t.Val>>32, t.Val&0xffffffff)
	case "int2bv":
		fmt.Fprintf(sb, "((_ int2bv %d) ", t.Val)
	case "zext":
		fmt.Fprintf(sb, "((_ zero_extend %d) ", t.Val)
	case "sext":
		fmt.Fprintf(sb, "((_ sign_extend %d) ", t.Val)
	default:
		sb.WriteByte('(')
		sb.WriteString(t.Op)
		sb.WriteByte(' ')
	}
	for i, a := range t.Args {
		if i > 0 {
			sb.WriteByte(' ')
		}
		p.write(sb, a, pre, false)
	}
	sb.WriteByte(')')
}

// Vars collects the free variables of t (sorted by name).
func Vars(ts ...*Term) []*Term {
	seen := map[*Term]bool{}
	var out []*Term
	var walk func(t *Term)
	walk = func(t *Term) {
		if seen[t] {
			return
		}
		seen[t] = true
		if t.Op == "var" {
			out = append(out, t)
		}
		for _, a := range t.Args {
			walk(a)
		}
	}
	for _, t := range ts {
		walk(t)
	}
	sort.Slice(out, func(i, j int) bool { return out[i].Name < out[j].Name })
	return out
}

// Eval evaluates a term under a model (var name -> value). Only BV/Bool.
func Eval(t *Term, model map[string]uint64, memo map[*Term]uint64) (uint64, bool) {
	if v, ok := memo[t]; ok {
		return v, true
	}
	var r uint64
	ok := true
	arg := func(i int) uint64 {
		v, k := Eval(t.Args[i], model, memo)
		if !k {
			ok = false
		}
		return v
	}
	b2u := func(b bool) uint64 {
		if b {
			return 1
		}
		return 0
	}
	switch t.Op {
	case "var":
		v, k := model[t.Name]
		if !k {
			v = 0
		}
		r = v
	case "true":
		r = 1
	case "false":
		r = 0
	case "bv":
		r = t.Val
	case "not":
		r = 1 - arg(0)
	case "and":
		r = 1
		for i := range t.Args {
			if arg(i) == 0 {
				r = 0
			}
		}
	case "or":
		r = 0
		for i := range t.Args {
			if arg(i) == 1 {
				r = 1
			}
		}
	case "ite":
		if arg(0) == 1 {
			r = arg(1)
		} else {
			r = arg(2)
		}
	case "=":
		r = b2u(arg(0) == arg(1))
	case "bvult":
		r = b2u(arg(0) < arg(1))
	case "bvule":
		r = b2u(arg(0) <= arg(1))
	case "bvslt":
		w := t.Args[0].Sort.W
		r = b2u(sext(w, arg(0)) < sext(w, arg(1)))
	case "bvsle":
		w := t.Args[0].Sort.W
		r = b2u(sext(w, arg(0)) <= sext(w, arg(1)))
	case "bvnot":
		r = ^arg(0) & mask(t.Sort.W)
	case "bvneg":
		r = -arg(0) & mask(t.Sort.W)
	case "extract":
		hi, lo := int(t.Val>>32), int(t.Val&0xffffffff)
		r = (arg(0) >> uint(lo)) & mask(hi-lo+1)
	case "zext":
		r = arg(0)
	case "sext":
		r = uint64(sext(t.Args[0].Sort.W, arg(0))) & mask(t.Sort.W)
	case "concat":
		r = arg(0)<<uint(t.Args[1].Sort.W) | arg(1)
	default:
		if strings.HasPrefix(t.Op, "bv") && len(t.Args) == 2 {
			a, b := arg(0), arg(1)
			v, k := foldBV(t.Op, t.Sort.W, a, b)
			if !k {
				ok = false
			}
			r = v
		} else {
			ok = false
		}
	}
	if ok {
		memo[t] = r
	}
	return r, ok
}

var _ = bits.Len
