package smt

import (
	"bufio"
	"fmt"
	"io"
	"os"
	"os/exec"
	"strconv"
	"strings"
	"time"
)

type Result int

const (
	Sat Result = iota
	Unsat
	Unknown
)

func (r Result) String() string { return [...]string{"sat", "unsat", "unknown"}[r] }

// Stats are accumulated per solver.
type Stats struct {
	Sat, Unsat, Unknown, Errors int
	Time                        time.Duration
}

// Solver drives one long-lived solver process over stdin/stdout.
type Solver struct {
	cmd   *exec.Cmd
	in    io.WriteCloser
	out   *bufio.Reader
	P     *Printer
	Level int
	Stats Stats
	seq   int
	Log   io.Writer // optional transcript
	// Script mirrors every command of the current assertion stack so that a
	// query can be dumped as a standalone file for other solvers.
	global    []string   // declarations / definitions (never popped)
	frames    [][]string // assertions per level
	kind      string
	argv      []string
	TimeoutMs int
	LastErr   string
}

func SolverArgv(kind string) []string {
	switch kind {
	case "z3":
		return []string{"z3", "-in", "-smt2"}
	case "z3-new":
		return []string{"z3-new", "-in", "-smt2"}
	case "cvc5":
		return []string{"cvc5", "--incremental", "--lang=smt2", "--strings-exp", "--produce-models"}
	}
	return []string{kind}
}

func NewSolver(kind string, timeoutMs int) (*Solver, error) {
	s := &Solver{kind: kind, argv: SolverArgv(kind), TimeoutMs: timeoutMs}
	if (kind == "z3" || kind == "z3-new") && timeoutMs > 0 {
		s.argv = append(s.argv, fmt.Sprintf("-t:%d", timeoutMs))
	}
	if err := s.start(); err != nil {
		return nil, err
	}
	return s, nil
}

func (s *Solver) start() error {
	cmd := exec.Command(s.argv[0], s.argv[1:]...)
	in, err := cmd.StdinPipe()
	if err != nil {
		return err
	}
	out, err := cmd.StdoutPipe()
	if err != nil {
		return err
	}
	cmd.Stderr = os.Stderr
	if err := cmd.Start(); err != nil {
		return err
	}
	s.cmd, s.in, s.out = cmd, in, bufio.NewReaderSize(out, 1<<16)
	s.P = NewPrinter()
	s.Level = 0
	s.global = nil
	s.frames = [][]string{nil}
	if s.kind == "cvc5" {
		s.raw("(set-logic ALL)")
		if s.TimeoutMs > 0 {
			s.raw(fmt.Sprintf("(set-option :tlimit-per %d)", s.TimeoutMs))
		}
	} else {
		s.raw("(set-option :global-declarations true)")
		if s.TimeoutMs > 0 {
			s.raw(fmt.Sprintf("(set-option :timeout %d)", s.TimeoutMs))
		}
	}
	return nil
}

func (s *Solver) Close() {
	if s.cmd != nil {
		s.in.Close()
		s.cmd.Process.Kill()
		s.cmd.Wait()
		s.cmd = nil
	}
}

// Restart kills the process and starts a fresh one (empty assertion stack).
func (s *Solver) Restart() error {
	s.Close()
	return s.start()
}

func (s *Solver) raw(line string) {
	if s.Log != nil {
		fmt.Fprintln(s.Log, line)
	}
	io.WriteString(s.in, line)
	io.WriteString(s.in, "\n")
}

// sync sends an echo marker and reads all output lines up to it.
func (s *Solver) sync() []string {
	s.seq++
	marker := "<<" + strconv.Itoa(s.seq) + ">>"
	s.raw(`(echo "` + marker + `")`)
	var lines []string
	for {
		line, err := s.out.ReadString('\n')
		line = strings.TrimRight(line, "\r\n")
		if strings.Trim(line, `"`) == marker {
			return lines
		}
		if line != "" {
			lines = append(lines, line)
		}
		if err != nil {
			lines = append(lines, "(error \"solver process ended: "+err.Error()+"\")")
			return lines
		}
	}
}

func (s *Solver) pre(pre []string) {
	for _, l := range pre {
		s.global = append(s.global, l)
		s.raw(l)
	}
}

func (s *Solver) Push() {
	s.raw("(push 1)")
	s.Level++
	s.frames = append(s.frames, nil)
}

func (s *Solver) Pop(n int) {
	if n <= 0 {
		return
	}
	s.raw(fmt.Sprintf("(pop %d)", n))
	s.Level -= n
	s.frames = s.frames[:len(s.frames)-n]
}

func (s *Solver) Assert(t *Term) {
	pre, e := s.P.Emit(t)
	s.pre(pre)
	line := "(assert " + e + ")"
	s.frames[len(s.frames)-1] = append(s.frames[len(s.frames)-1], line)
	s.raw(line)
}

// Check decides the current stack plus the extra assumptions (asserted in a
// temporary frame).
func (s *Solver) Check(extra ...*Term) Result {
	t0 := time.Now()
	if len(extra) > 0 {
		s.Push()
		for _, e := range extra {
			s.Assert(e)
		}
	}
	s.raw("(check-sat)")
	lines := s.sync()
	if s.Log != nil {
		fmt.Fprintf(s.Log, "; -> %v in %v\n", lines, time.Since(t0))
	}
	if len(extra) > 0 {
		s.Pop(1)
	}
	s.Stats.Time += time.Since(t0)
	res := Unknown
	seen := false
	for _, l := range lines {
		switch {
		case strings.HasPrefix(l, "(error"):
			s.Stats.Errors++
			s.LastErr = l
			return Unknown
		case l == "sat":
			res, seen = Sat, true
		case l == "unsat":
			res, seen = Unsat, true
		case l == "unknown" || l == "timeout":
			res, seen = Unknown, true
		}
	}
	if !seen {
		s.Stats.Errors++
		s.LastErr = strings.Join(lines, " / ")
		return Unknown
	}
	switch res {
	case Sat:
		s.Stats.Sat++
	case Unsat:
		s.Stats.Unsat++
	default:
		s.Stats.Unknown++
	}
	return res
}

// CheckModel is Check followed (when sat) by get-value on vars, all inside
// the temporary frame.
func (s *Solver) CheckModel(vars []*Term, extra ...*Term) (Result, map[string]string) {
	t0 := time.Now()
	s.Push()
	for _, e := range extra {
		s.Assert(e)
	}
	s.raw("(check-sat)")
	lines := s.sync()
	res := Unknown
	for _, l := range lines {
		switch {
		case strings.HasPrefix(l, "(error"):
			s.Stats.Errors++
			s.LastErr = l
			s.Pop(1)
			return Unknown, nil
		case l == "sat":
			res = Sat
		case l == "unsat":
			res = Unsat
		}
	}
	var model map[string]string
	if res == Sat {
		s.Stats.Sat++
		model = map[string]string{}
		for i := 0; i < len(vars); i += 64 {
			j := i + 64
			if j > len(vars) {
				j = len(vars)
			}
			var sb strings.Builder
			sb.WriteString("(get-value (")
			for _, v := range vars[i:j] {
				pre, e := s.P.Emit(v)
				s.pre(pre)
				sb.WriteString(e)
				sb.WriteByte(' ')
			}
			sb.WriteString("))")
			s.raw(sb.String())
			out := strings.Join(s.sync(), " ")
			parseValues(out, model)
		}
	} else if res == Unsat {
		s.Stats.Unsat++
	} else {
		s.Stats.Unknown++
	}
	s.Pop(1)
	s.Stats.Time += time.Since(t0)
	return res, model
}

// parseValues parses "((name value) (name value) ...)".
func parseValues(out string, model map[string]string) {
	toks := tokenize(out)
	// expect ( ( name value ) ... )
	i := 0
	if i < len(toks) && toks[i] == "(" {
		i++
	}
	for i < len(toks) {
		if toks[i] != "(" {
			i++
			continue
		}
		i++
		if i >= len(toks) {
			break
		}
		name := toks[i]
		i++
		// value: atom or parenthesised
		var val string
		if i < len(toks) && toks[i] == "(" {
			depth := 0
			var sb []string
			for i < len(toks) {
				if toks[i] == "(" {
					depth++
				} else if toks[i] == ")" {
					depth--
				}
				sb = append(sb, toks[i])
				i++
				if depth == 0 {
					break
				}
			}
			val = strings.Join(sb, " ")
		} else if i < len(toks) {
			val = toks[i]
			i++
		}
		if i < len(toks) && toks[i] == ")" {
			i++
		}
		model[strings.Trim(name, "|")] = val
	}
}

func tokenize(s string) []string {
	var toks []string
	i := 0
	for i < len(s) {
		c := s[i]
		switch {
		case c == ' ' || c == '\t' || c == '\n':
			i++
		case c == '(' || c == ')':
			toks = append(toks, string(c))
			i++
		case c == '"':
			j := i + 1
			for j < len(s) {
				if s[j] == '"' {
					if j+1 < len(s) && s[j+1] == '"' {
						j += 2
						continue
					}
					break
				}
				j++
			}
			toks = append(toks, s[i:min(j+1, len(s))])
			i = j + 1
		case c == '|':
			j := strings.IndexByte(s[i+1:], '|')
			if j < 0 {
				toks = append(toks, s[i:])
				i = len(s)
			} else {
				toks = append(toks, s[i:i+j+2])
				i += j + 2
			}
		default:
			j := i
			for j < len(s) && !strings.ContainsRune(" \t\n()", rune(s[j])) {
				j++
			}
			toks = append(toks, s[i:j])
			i = j
		}
	}
	return toks
}

// ParseBV turns "#x0f" / "#b0101" / "(_ bv15 8)" into a number.
func ParseBV(v string) (uint64, bool) {
	switch {
	case strings.HasPrefix(v, "#x"):
		n, err := strconv.ParseUint(v[2:], 16, 64)
		return n, err == nil
	case strings.HasPrefix(v, "#b"):
		n, err := strconv.ParseUint(v[2:], 2, 64)
		return n, err == nil
	case strings.HasPrefix(v, "( _ bv"):
		f := strings.Fields(v)
		if len(f) >= 3 {
			n, err := strconv.ParseUint(strings.TrimPrefix(f[2], "bv"), 10, 64)
			return n, err == nil
		}
	case v == "true":
		return 1, true
	case v == "false":
		return 0, true
	}
	return 0, false
}

// Dump writes the current stack plus extra as a standalone script.
func (s *Solver) Dump(w io.Writer, extra ...*Term) {
	p := NewPrinter()
	_ = p
	fmt.Fprintln(w, "(set-logic ALL)")
	for _, l := range s.global {
		fmt.Fprintln(w, l)
	}
	for _, f := range s.frames {
		for _, l := range f {
			fmt.Fprintln(w, l)
		}
	}
	// extra terms: their declarations must already be known to s.P; emit any
	// new ones into global first.
	for _, e := range extra {
		pre, x := s.P.Emit(e)
		s.pre(pre)
		for _, l := range pre {
			fmt.Fprintln(w, l)
		}
		fmt.Fprintf(w, "(assert %s)\n", x)
	}
	fmt.Fprintln(w, "(check-sat)")
}

// RunScript decides a standalone script with another solver binary.
func RunScript(kind, path string, timeoutS int) (Result, string) {
	var argv []string
	switch kind {
	case "z3", "z3-new":
		argv = []string{kind, "-smt2", fmt.Sprintf("-T:%d", timeoutS), path}
	case "cvc5":
		argv = []string{"cvc5", "--lang=smt2", "--strings-exp", fmt.Sprintf("--tlimit=%d", timeoutS*1000), path}
	}
	out, _ := exec.Command(argv[0], argv[1:]...).CombinedOutput()
	txt := string(out)
	if strings.Contains(txt, "(error") {
		return Unknown, txt
	}
	for _, l := range strings.Split(txt, "\n") {
		switch strings.TrimSpace(l) {
		case "sat":
			return Sat, txt
		case "unsat":
			return Unsat, txt
		}
	}
	return Unknown, txt
}
