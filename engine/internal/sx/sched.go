package sx

import (
	"fmt"
	"runtime/debug"
	"strings"

	"golang.org/x/tools/go/ssa"
)

// Thread is an interpreted goroutine running on its own host goroutine; exactly
// one thread holds the baton at any time.
type Thread struct {
	id      int
	wake    chan struct{}
	done    bool
	blocked func() bool // non-nil while blocked: enabled again when it returns true
	blockOn string
	daemon  bool
	started bool
	fn      Value
	args    []Value
	fnStack []*ssa.Function
}

func (in *Interp) newThread(fn Value, args []Value) *Thread {
	t := &Thread{id: len(in.threads), wake: make(chan struct{}, 1), fn: fn, args: args}
	in.threads = append(in.threads, t)
	return t
}

func (in *Interp) spawn(fn Value, args []Value) {
	in.schedPoint("go")
	t := in.newThread(fn, args)
	_ = t
}

func (t *Thread) enabled() bool {
	if t.done {
		return false
	}
	if t.blocked != nil {
		return t.blocked()
	}
	return true
}

// startHost launches the host goroutine of a spawned thread (parked until first scheduled).
func (in *Interp) startHost(t *Thread) {
	t.started = true
	in.wg.Add(1)
	go func() {
		defer in.wg.Done()
		<-t.wake
		if in.killed {
			t.done = true
			return
		}
		r := in.protect(func() { in.call(nil, t.fn, t.args) })
		t.done = true
		if _, ok := r.(threadKill); ok {
			return
		}
		if r == nil {
			r = in.protect(func() { in.threadFinished(t) })
			if r == nil {
				return
			}
			if _, ok := r.(threadKill); ok {
				return
			}
		}
		if tp, ok := r.(targetPanic); ok {
			r = goroutinePanic{tp}
		}
		in.pending = r
		main := in.threads[0]
		in.cur = main
		main.wake <- struct{}{}
	}()
}

// protect runs f and returns the recovered sentinel (engine faults become inconclusive).
func (in *Interp) protect(f func()) (r interface{}) {
	defer func() {
		if x := recover(); x != nil {
			switch x.(type) {
			case targetPanic, pathAbort, inconclusive, threadKill, pathEnd, goroutinePanic, deadlock:
				r = x
			default:
				r = inconclusive{fmt.Sprintf("engine fault: %v\n%s", x, debug.Stack())}
			}
		}
	}()
	f()
	return nil
}

type goroutinePanic struct{ tp targetPanic }

// threadFinished picks the next thread after t ended.
func (in *Interp) threadFinished(t *Thread) {
	next := in.pickNext(nil, "exit")
	if next == nil {
		// nothing enabled: if main is blocked this is a deadlock, reported from main
		main := in.threads[0]
		in.pending = deadlock{in.describeBlocked()}
		in.cur = main
		main.wake <- struct{}{}
		return
	}
	in.cur = next
	in.resume(next)
}

type deadlock struct{ what string }

func (in *Interp) describeBlocked() string {
	s := ""
	for _, t := range in.threads {
		if !t.done && t.blocked != nil {
			s += fmt.Sprintf("T%d@%s ", t.id, t.blockOn)
		}
	}
	return s
}

func (in *Interp) resume(t *Thread) {
	if !t.started && t.id != 0 {
		in.startHost(t)
	}
	t.wake <- struct{}{}
}

// park waits for the baton; on wake it re-raises pending sentinels (main only) or dies if killed.
func (in *Interp) park(t *Thread) {
	<-t.wake
	if in.killed {
		panic(threadKill{})
	}
	if t.id == 0 && in.pending != nil {
		p := in.pending
		in.pending = nil
		panic(p)
	}
}

// pickNext chooses among enabled threads other than `except` (nil: any). Returns nil if none.
func (in *Interp) pickNext(except *Thread, kind string) *Thread {
	var en []*Thread
	for _, t := range in.threads {
		if t != except && t.enabled() {
			en = append(en, t)
		}
	}
	if len(en) == 0 {
		return nil
	}
	if nb := in.cfg.FreeSwitchBound; nb > 0 && len(en) > 1 {
		// bounded exploration of the choices made when the running thread blocks or ends: the default successor is
		// the next enabled thread in round-robin order; every other choice costs one unit of the bound
		cur := 0
		if in.cur != nil {
			cur = in.cur.id
		}
		def := 0
		for i, t := range en {
			if t.id > cur {
				def = i
				break
			}
		}
		if in.freeSwitches >= nb {
			return en[def]
		}
		k := in.decideN(len(en), "sched:"+kind)
		// alternative 0 is the default successor, the others follow in order
		order := append([]*Thread{en[def]}, append(append([]*Thread{}, en[:def]...), en[def+1:]...)...)
		if k != 0 {
			in.freeSwitches++
		}
		return order[k]
	}
	return en[in.decideN(len(en), "sched:"+kind)]
}

// schedPoint is called before every visible operation of the running thread.
func (in *Interp) schedPoint(kind string) {
	if len(in.threads) <= 1 {
		return
	}
	me := in.cur
	if kind != "yield" && in.preempts >= in.cfg.PreemptBound {
		return // voluntary yields are not counted against the pre-emption bound
	}
	if in.m.noPreempt > 0 || (in.m.onlyYield && kind != "yield") {
		return
	}
	if w := in.m.preemptWithin; w != "" && kind != "yield" {
		// pre-emption is explored only while the running thread executes under a function whose name contains w
		inside := false
		for _, f := range me.fnStack {
			if strings.Contains(f.String(), w) {
				inside = true
				break
			}
		}
		if !inside {
			return
		}
	}
	var others []*Thread
	for _, t := range in.threads {
		if t != me && t.enabled() {
			others = append(others, t)
		}
	}
	if len(others) == 0 {
		return
	}
	k := in.decideN(len(others)+1, "sched:"+kind)
	if k == 0 {
		return
	}
	if kind != "yield" {
		in.preempts++
	}
	in.res.Switches++
	next := others[k-1]
	in.cur = next
	in.resume(next)
	in.park(me)
}

// block suspends the running thread until cond() holds.
func (in *Interp) block(on string, cond func() bool) {
	me := in.cur
	for !cond() {
		me.blocked, me.blockOn = cond, on
		next := in.pickNext(me, "block")
		if next == nil {
			me.blocked = nil
			panic(deadlock{fmt.Sprintf("T%d blocked on %s; %s", me.id, on, in.describeBlocked())})
		}
		in.res.Switches++
		in.cur = next
		in.resume(next)
		in.park(me)
		me.blocked = nil
	}
}

func (in *Interp) blockForever(on string) {
	in.block(on, func() bool { return false })
}

// drain lets every other enabled thread run until none is enabled.
func (in *Interp) drain() {
	me := in.cur
	for {
		var others []*Thread
		for _, t := range in.threads {
			if t != me && t.enabled() {
				others = append(others, t)
			}
		}
		if len(others) == 0 {
			return
		}
		var next *Thread
		if nb := in.cfg.FreeSwitchBound; nb > 0 && in.freeSwitches >= nb {
			next = others[0]
		} else {
			k := in.decideN(len(others), "sched:drain")
			if k != 0 && in.cfg.FreeSwitchBound > 0 {
				in.freeSwitches++
			}
			next = others[k]
		}
		// me stays enabled; the other runs until it blocks/ends/preempts back
		me.blocked = func() bool { return true }
		me.blockOn = "drain"
		in.cur = next
		in.resume(next)
		in.park(me)
		me.blocked = nil
	}
}

// killThreads unwinds every parked host goroutine at path end.
func (in *Interp) killThreads() {
	in.killed = true
	n := 0
	for _, t := range in.threads[1:] {
		if t.started && !t.done {
			t.wake <- struct{}{}
			n++
		}
	}
	_ = n
	in.wg.Wait()
}
