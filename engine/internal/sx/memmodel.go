package sx

import (
	"fmt"
	"go/types"

	"verifh/internal/smt"
)

// Shadow page table behind github.com/awnumar/memcall and the memguard buffer model.

const (
	protNone = 1
	protRO   = 2
	protRW   = 6
)

type regionInfo struct {
	*memRegion
	id           int
	zeroAtUnlock *smt.Term // contents all-zero when Unlock was called (nil: never unlocked)
	zeroAtFree   *smt.Term
	ops          []string
}

func (in *Interp) regionOf(b Slice) *regionInfo {
	if len(b.A) == 0 && cap(b.A) == 0 {
		return nil
	}
	a := b.A[:1]
	if r, ok := in.m.guard[&a[0]]; ok {
		return r
	}
	return nil
}

func (in *Interp) newRegion(n int) (Slice, *regionInfo) {
	data := make([]Value, n)
	for i := range data {
		data[i] = mkBV(8, 0)
	}
	r := &regionInfo{memRegion: &memRegion{data: data, mapped: true, prot: protRW}, id: len(in.m.regionList)}
	in.m.regionList = append(in.m.regionList, r)
	if in.m.guard == nil {
		in.m.guard = map[*Value]*regionInfo{}
	}
	for i := range data {
		in.m.guard[&data[i]] = r
	}
	return Slice{A: data}, r
}

func (in *Interp) memOp(r *regionInfo, op string) {
	r.ops = append(r.ops, op)
	in.m.memLog = append(in.m.memLog, fmt.Sprintf("%s#%d", op, r.id))
}

func (in *Interp) allZero(vs []Value) *smt.Term {
	z := make([]BV, len(vs))
	for i := range z {
		z[i] = mkBV(8, 0)
	}
	return in.eqBytes(bvs(vs), z)
}

// memAccess is called on loads/stores of guarded bytes.
func (in *Interp) memAccess(p *Value, write bool) {
	if in.m.guard == nil || in.m.modelAccess > 0 {
		return
	}
	r, ok := in.m.guard[p]
	if !ok {
		return
	}
	switch {
	case !r.mapped:
		in.memFaultViolation(fmt.Sprintf("access to unmapped (freed) secure memory region #%d", r.id))
	case write && r.prot != protRW:
		in.memFaultViolation(fmt.Sprintf("write to secure memory region #%d while protection=%d", r.id, r.prot))
	case !write && r.prot == protNone:
		in.memFaultViolation(fmt.Sprintf("read of secure memory region #%d while PROT_NONE", r.id))
	}
}

type memFault struct{ msg string }

func (in *Interp) memFaultViolation(msg string) {
	panic(targetPanic{Iface{T: types.Typ[types.String], V: Str{S: "SIGSEGV (shadow page table): " + msg}}})
}

func flagOf(v Value) int {
	// awnumar memcall.MemoryProtectionFlag{flag byte}
	return int(v.(Struct)[0].(BV).C)
}

func init() {
	reg := func(name string, f intrinsic) { intrinsics[name] = f }
	const mc = "github.com/awnumar/memcall."
	reg(mc+"Alloc", func(in *Interp, fr *frame, a []Value) Value {
		n := int(in.concIntRange(a[0], "memcall.Alloc size"))
		if in.maybeFault("memcall", "Alloc") {
			return Tuple{Slice{Nil: true}, in.errorValue("vx: injected memcall.Alloc failure")}
		}
		if n < 1 {
			return Tuple{Slice{Nil: true}, in.errorValue("<memcall> invalid size")}
		}
		s, r := in.newRegion(n)
		in.memOp(r, "alloc")
		return Tuple{s, nilError()}
	})
	simple := func(op string, f func(in *Interp, r *regionInfo, a []Value)) intrinsic {
		return func(in *Interp, fr *frame, a []Value) Value {
			b := a[0].(Slice)
			r := in.regionOf(b)
			if in.maybeFault("memcall", op) {
				if r != nil {
					in.memOp(r, op+"!fail")
				}
				return in.errorValue("vx: injected memcall." + op + " failure")
			}
			if r == nil {
				if len(b.A) == 0 {
					return nilError() // memcall treats empty regions as no-ops
				}
				return in.errorValue("<memcall> " + op + " on memory that is not a live allocation")
			}
			if !r.mapped {
				return in.errorValue("<memcall> " + op + " on freed memory")
			}
			f(in, r, a)
			in.memOp(r, op)
			return nilError()
		}
	}
	reg(mc+"Lock", simple("lock", func(in *Interp, r *regionInfo, a []Value) { r.locked = true }))
	reg(mc+"Unlock", simple("unlock", func(in *Interp, r *regionInfo, a []Value) {
		r.locked = false
		z := in.allZero(r.data)
		if r.zeroAtUnlock == nil {
			r.zeroAtUnlock = z
		} else {
			r.zeroAtUnlock = in.tb.And(r.zeroAtUnlock, z)
		}
	}))
	reg(mc+"Protect", func(in *Interp, fr *frame, a []Value) Value {
		b := a[0].(Slice)
		fl := flagOf(a[1])
		r := in.regionOf(b)
		op := fmt.Sprintf("protect%d", fl)
		if in.maybeFault("memcall", "Protect") {
			if r != nil {
				in.memOp(r, op+"!fail")
			}
			return in.errorValue("vx: injected memcall.Protect failure")
		}
		if r == nil {
			if len(b.A) == 0 {
				return nilError()
			}
			return in.errorValue("<memcall> protect on memory that is not a live allocation")
		}
		if !r.mapped {
			return in.errorValue("<memcall> protect on freed memory")
		}
		if fl != protNone && fl != protRO && fl != protRW {
			return in.errorValue("<memcall> invalid memory protection flag")
		}
		r.prot = fl
		in.memOp(r, op)
		return nilError()
	})
	reg(mc+"Free", simple("free", func(in *Interp, r *regionInfo, a []Value) {
		// awnumar: make RW, wipe, munmap
		r.zeroAtFree = in.allZero(r.data)
		r.prot = protRW
		for i := range r.data {
			r.data[i] = mkBV(8, 0)
		}
		r.mapped = false
		r.locked = false
	}))

	// memguard buffers: real struct values, constructors and Destroy intercepted
	const mg = "github.com/awnumar/memguard."
	mkBuf := func(in *Interp, n int, fill func(data []Value)) Value {
		mgPkg := in.prog.ImportedPackage("github.com/awnumar/memguard")
		corePkg := in.prog.ImportedPackage("github.com/awnumar/memguard/core")
		if mgPkg == nil || corePkg == nil {
			panic(inconclusive{"memguard packages not loaded"})
		}
		bt := corePkg.Type("Buffer").Object().Type()
		lt := mgPkg.Type("LockedBuffer").Object().Type()
		var core Value = in.zero(bt)
		st := bt.Underlying().(*types.Struct)
		fi := func(name string) int {
			for i := 0; i < st.NumFields(); i++ {
				if st.Field(i).Name() == name {
					return i
				}
			}
			panic("memguard core.Buffer has no field " + name)
		}
		cs := core.(Struct)
		if n >= 1 && !in.maybeFault("memguard", "NewBuffer") {
			s, r := in.newRegion(n)
			r.locked = true
			in.memOp(r, "alloc")
			in.memOp(r, "lock")
			fill(s.A)
			r.prot = protRO // Freeze
			in.memOp(r, "protect2")
			cs[fi("alive")] = Bool{C: true}
			cs[fi("data")] = s
			cs[fi("inner")] = s
			cs[fi("memory")] = s
		}
		var lb Value = Struct{&core}
		_ = lt
		return &lb
	}
	reg(mg+"NewBufferFromBytes", func(in *Interp, fr *frame, a []Value) Value {
		src := a[0].(Slice)
		return mkBuf(in, len(src.A), func(data []Value) {
			in.m.modelAccess++
			for i := range data {
				data[i] = src.A[i]
				src.A[i] = mkBV(8, 0)
			}
			in.m.modelAccess--
		})
	})
	reg(mg+"NewBufferRandom", func(in *Interp, fr *frame, a []Value) Value {
		n := int(in.concIntRange(a[0], "NewBufferRandom size"))
		return mkBuf(in, n, func(data []Value) { in.drawRandom(data) })
	})
	reg("(*github.com/awnumar/memguard/core.Buffer).Destroy", func(in *Interp, fr *frame, a []Value) Value {
		p := a[0].(*Value)
		if p == nil {
			return nil
		}
		cs := (*p).(Struct)
		// fields by position: RWMutex, alive, mutable, data, memory, preguard, inner, postguard, canary
		if alive, _ := cs[1].(Bool); !alive.C {
			return nil
		}
		data := cs[3].(Slice)
		if r := in.regionOf(data); r != nil {
			r.prot = protRW
			in.memOp(r, "protect6")
			for i := range r.data {
				r.data[i] = mkBV(8, 0)
			}
			in.memOp(r, "wipe")
			r.zeroAtUnlock = in.tb.True
			r.locked = false
			in.memOp(r, "unlock")
			r.zeroAtFree = in.tb.True
			r.mapped = false
			in.memOp(r, "free")
		}
		cs[1] = Bool{C: false}
		cs[2] = Bool{C: false}
		for _, i := range []int{3, 4, 5, 6, 7, 8} {
			cs[i] = Slice{Nil: true}
		}
		return nil
	})

	// harness-side introspection
	vreg := func(name string, f intrinsic) { intrinsics["verifh/vx."+name] = f }
	vreg("MemProt", func(in *Interp, fr *frame, a []Value) Value {
		r := in.regionOf(a[0].(Slice))
		if r == nil || !r.mapped {
			return mkBV(64, 0)
		}
		return mkBV(64, uint64(r.prot))
	})
	vreg("MemLocked", func(in *Interp, fr *frame, a []Value) Value {
		r := in.regionOf(a[0].(Slice))
		return Bool{C: r != nil && r.mapped && r.locked}
	})
	vreg("MemMapped", func(in *Interp, fr *frame, a []Value) Value {
		r := in.regionOf(a[0].(Slice))
		return Bool{C: r != nil && r.mapped}
	})
	vreg("MemRegions", func(in *Interp, fr *frame, a []Value) Value { return mkBV(64, uint64(len(in.m.regionList))) })
	vreg("MemCount", func(in *Interp, fr *frame, a []Value) Value {
		// what: 0 mapped, 1 locked, 2 readable (mapped and prot != none)
		what := in.concInt(a[0], "MemCount kind")
		n := 0
		for _, r := range in.m.regionList {
			switch {
			case what == 0 && r.mapped, what == 1 && r.mapped && r.locked, what == 2 && r.mapped && r.prot != protNone:
				n++
			}
		}
		return mkBV(64, uint64(n))
	})
	vreg("MemWipedBeforeRelease", func(in *Interp, fr *frame, a []Value) Value {
		var cs []*smt.Term
		for _, r := range in.m.regionList {
			if r.zeroAtUnlock != nil {
				cs = append(cs, r.zeroAtUnlock)
			}
			// Free: the library itself makes the region writable and wipes it before unmapping
		}
		return in.mkBoolT(in.tb.And(cs...))
	})
	vreg("MemOps", func(in *Interp, fr *frame, a []Value) Value {
		// ops of the region behind b, joined by ","
		r := in.regionOf(a[0].(Slice))
		if r == nil {
			return Str{}
		}
		s := ""
		for i, o := range r.ops {
			if i > 0 {
				s += ","
			}
			s += o
		}
		return Str{S: s}
	})
	vreg("MemOpsOf", func(in *Interp, fr *frame, a []Value) Value {
		k := int(in.concInt(a[0], "region index"))
		if k < 0 || k >= len(in.m.regionList) {
			return Str{}
		}
		s := ""
		for i, o := range in.m.regionList[k].ops {
			if i > 0 {
				s += ","
			}
			s += o
		}
		return Str{S: s}
	})
	vreg("MemPeek", func(in *Interp, fr *frame, a []Value) Value {
		// copy of the region's current bytes, bypassing protection (observer, not program)
		r := in.regionOf(a[0].(Slice))
		if r == nil {
			return Slice{Nil: true}
		}
		out := make([]Value, len(r.data))
		copy(out, r.data)
		return Slice{A: out}
	})
	vreg("MemPeekOf", func(in *Interp, fr *frame, a []Value) Value {
		k := int(in.concInt(a[0], "region index"))
		r := in.m.regionList[k]
		out := make([]Value, len(r.data))
		copy(out, r.data)
		return Slice{A: out}
	})
	vreg("MemStateOf", func(in *Interp, fr *frame, a []Value) Value {
		// bit0 mapped, bit1 locked, bits 2.. prot
		k := int(in.concInt(a[0], "region index"))
		r := in.m.regionList[k]
		v := 0
		if r.mapped {
			v |= 1
		}
		if r.locked {
			v |= 2
		}
		v |= r.prot << 2
		return mkBV(64, uint64(v))
	})
}
