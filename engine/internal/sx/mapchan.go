package sx

import (
	"fmt"
	"go/types"
	"unicode/utf8"

	"golang.org/x/tools/go/ssa"

	"verifh/internal/smt"
)

// ---- maps: insertion-ordered association lists; symbolic keys fork on which entry matches ----

func (in *Interp) mapFind(m *Map, k Value) *mapEntry {
	// collect candidates: definite match returns immediately when no earlier symbolic candidate
	var cands []*mapEntry
	var conds []*smt.Term
	for _, e := range m.Entries {
		if e.deleted {
			continue
		}
		eq := in.equals(m.KeyT, e.K, k)
		if eq.T == nil {
			if eq.C {
				if len(cands) == 0 {
					return e
				}
				cands = append(cands, e)
				conds = append(conds, in.tb.True)
				break
			}
			continue
		}
		cands = append(cands, e)
		conds = append(conds, eq.T)
	}
	if len(cands) == 0 {
		return nil
	}
	// alternatives: first matching candidate i (and none before), or none at all
	alts := make([]*smt.Term, 0, len(cands)+1)
	var none []*smt.Term
	for i := range cands {
		alts = append(alts, in.tb.And(append(append([]*smt.Term{}, none...), conds[i])...))
		none = append(none, in.tb.Not(conds[i]))
	}
	alts = append(alts, in.tb.And(none...))
	k2 := in.decide(alts, "mapkey")
	if k2 == len(cands) {
		return nil
	}
	return cands[k2]
}

func (in *Interp) mapGet(m *Map, k Value) (Value, bool) {
	if e := in.mapFind(m, k); e != nil {
		return e.V, true
	}
	return nil, false
}

func (in *Interp) mapInsert(m *Map, k, v Value) {
	if e := in.mapFind(m, k); e != nil {
		e.V = v
		return
	}
	m.Entries = append(m.Entries, &mapEntry{K: copyVal(k), V: v})
	m.N++
}

func (in *Interp) mapDelete(m *Map, k Value) {
	if e := in.mapFind(m, k); e != nil {
		e.deleted = true
		m.N--
		// compact occasionally
		if len(m.Entries) > 2*m.N+8 {
			var out []*mapEntry
			for _, e := range m.Entries {
				if !e.deleted {
					out = append(out, e)
				}
			}
			m.Entries = out
		}
	}
}

// ---- iterators ----

type iter interface {
	next(in *Interp) Tuple
}

type mapIter struct {
	m    *Map
	snap []*mapEntry
	i    int
}

func (it *mapIter) next(in *Interp) Tuple {
	for it.i < len(it.snap) {
		e := it.snap[it.i]
		it.i++
		if e.deleted {
			continue
		}
		return Tuple{Bool{C: true}, e.K, copyVal(e.V)}
	}
	return Tuple{Bool{C: false}, nil, nil}
}

type strIter struct {
	s string
	i int
}

func (it *strIter) next(in *Interp) Tuple {
	if it.i >= len(it.s) {
		return Tuple{Bool{C: false}, mkBV(64, 0), mkBV(32, 0)}
	}
	r, n := utf8.DecodeRuneInString(it.s[it.i:])
	idx := it.i
	it.i += n
	return Tuple{Bool{C: true}, mkBV(64, uint64(idx)), mkBV(32, uint64(r))}
}

func (in *Interp) rangeIter(x Value, t types.Type) iter {
	switch x := x.(type) {
	case *Map:
		if x == nil {
			return &mapIter{}
		}
		snap := append([]*mapEntry{}, x.Entries...)
		if in.m.mapOrderAll && len(snap) > 1 {
			// explore every iteration order: pick a permutation by successive choices
			live := make([]*mapEntry, 0, len(snap))
			for _, e := range snap {
				if !e.deleted {
					live = append(live, e)
				}
			}
			var perm []*mapEntry
			for len(live) > 0 {
				k := in.decideN(len(live), "maporder")
				perm = append(perm, live[k])
				live = append(live[:k:k], live[k+1:]...)
			}
			snap = perm
		}
		return &mapIter{m: x, snap: snap}
	case Str:
		if !x.IsConc() {
			panic(inconclusive{"range over symbolic string"})
		}
		return &strIter{s: x.S}
	}
	panic(fmt.Sprintf("cannot range over %T", x))
}

// ---- channels (scheduler-aware) ----

func (in *Interp) chanSend(c *Chan, v Value) {
	if c == nil {
		in.blockForever("send on nil channel")
	}
	in.schedPoint("chan.send")
	if c.Closed {
		in.goPanic("send on closed channel")
	}
	if c.Cap > 0 {
		in.block("chan.send", func() bool { return c.Closed || len(c.Buf) < c.Cap })
		if c.Closed {
			in.goPanic("send on closed channel")
		}
		c.Buf = append(c.Buf, copyVal(v))
		return
	}
	// unbuffered: offer the value and wait until a receiver takes it
	s := &chanSend{v: copyVal(v), th: in.cur}
	c.sendq = append(c.sendq, s)
	in.block("chan.send", func() bool { return s.taken || c.Closed })
	if !s.taken {
		in.goPanic("send on closed channel")
	}
}

func (in *Interp) chanRecvReady(c *Chan) bool {
	if len(c.Buf) > 0 || c.Closed {
		return true
	}
	for _, s := range c.sendq {
		if !s.taken {
			return true
		}
	}
	return false
}

func (in *Interp) chanTake(c *Chan) (Value, bool) {
	if len(c.Buf) > 0 {
		v := c.Buf[0]
		c.Buf = c.Buf[1:]
		return v, true
	}
	for i, s := range c.sendq {
		if !s.taken {
			s.taken = true
			c.sendq = append(c.sendq[:i:i], c.sendq[i+1:]...)
			return s.v, true
		}
	}
	return nil, false
}

func (in *Interp) chanRecv(c *Chan, commaOk bool, elem types.Type) Value {
	if c == nil {
		in.blockForever("receive from nil channel")
	}
	in.schedPoint("chan.recv")
	in.block("chan.recv", func() bool { return in.chanRecvReady(c) })
	v, ok := in.chanTake(c)
	if !ok {
		v = in.zero(elem)
	}
	if commaOk {
		return Tuple{v, Bool{C: ok}}
	}
	return v
}

func (in *Interp) chanClose(c *Chan) {
	if c == nil {
		in.goPanic("close of nil channel")
	}
	in.schedPoint("chan.close")
	if c.Closed {
		in.goPanic("close of closed channel")
	}
	c.Closed = true
}

type chanIter struct {
	c    *Chan
	elem types.Type
}

func (in *Interp) selectOp(fr *frame, instr *ssa.Select) Value {
	in.schedPoint("select")
	type st struct {
		c    *Chan
		send Value
		recv bool
	}
	var states []st
	for _, s := range instr.States {
		c, _ := in.get(fr, s.Chan).(*Chan)
		e := st{c: c, recv: s.Dir == types.RecvOnly}
		if s.Send != nil {
			e.send = in.get(fr, s.Send)
		}
		states = append(states, e)
	}
	ready := func() []int {
		var r []int
		for i, s := range states {
			if s.c == nil {
				continue
			}
			if s.recv {
				if in.chanRecvReady(s.c) {
					r = append(r, i)
				}
			} else if s.c.Closed || (s.c.Cap > 0 && len(s.c.Buf) < s.c.Cap) || (s.c.Cap == 0 && s.c.recvWaiting > 0) {
				r = append(r, i)
			}
		}
		return r
	}
	r := ready()
	chosen := -1
	if len(r) == 0 {
		if !instr.Blocking {
			chosen = -1
		} else {
			for _, s := range states {
				if !s.recv && s.c != nil && s.c.Cap == 0 {
					panic(inconclusive{"blocking select with an unbuffered send case"})
				}
			}
			in.block("select", func() bool { return len(ready()) > 0 })
			r = ready()
		}
	}
	if len(r) > 0 {
		chosen = r[in.decideN(len(r), "select")]
	}
	res := Tuple{mkBV(64, uint64(int64(chosen))), Bool{C: false}}
	var recvVals []Value
	for i, s := range instr.States {
		if s.Dir == types.RecvOnly {
			elem := s.Chan.Type().Underlying().(*types.Chan).Elem()
			var v Value = in.zero(elem)
			if i == chosen {
				if tv, ok := in.chanTake(states[i].c); ok {
					v = tv
					res[1] = Bool{C: true}
				}
			}
			recvVals = append(recvVals, v)
		} else if i == chosen {
			c := states[i].c
			if c.Closed {
				in.goPanic("send on closed channel")
			}
			c.Buf = append(c.Buf, copyVal(states[i].send))
		}
	}
	return append(res, recvVals...)
}
