package sx

import (
	"fmt"
	"go/token"
	"regexp"
	"strconv"
	"strings"

	"verifh/internal/smt"
)

// Environment model of a relational database behind database/sql, used by the SQL metastore check (C13/C18).
//
// vx.SQLDB(dialect) hands the harness a *sql.DB bound to one table with the schema documented in
// docs/Metastore.md:  encryption_key(id VARCHAR, created TIMESTAMP, key_record TEXT, PRIMARY KEY(id, created)).
// The model executes the statement TEXT the code under test sends (so the queries are part of what is checked):
//
//   SELECT c1[, c2..] FROM t WHERE c = <ph> [AND c = <ph>]... [ORDER BY c [ASC|DESC]] [LIMIT n]
//   INSERT INTO t (c1, c2, ..) VALUES (<ph>, <ph>, ..)
//
// with the placeholder syntax of the dialect (mysql "?", postgres "$n", oracle ":n"); any other text is a syntax
// error, an unknown table/column an error, an INSERT that repeats a primary key a duplicate-key error, a value of the
// wrong type for its column an error. Reads see every completed write (a single consistent database). Rows that
// satisfy a WHERE clause come back in ORDER BY order; without ORDER BY the order is unspecified (the model forks
// over it). Row values stay symbolic: matching and ordering decisions fork through the solver.

type sqlDB struct {
	dialect string
	table   string
	cols    []string // id, created, key_record
	rows    [][]Value
	execs   int
	queries int
}

type sqlRowResult struct {
	vals []Value // nil => no rows
	err  string
}

type sqlTok struct {
	kind string // word, ph, num, sym
	text string
	n    int
}

func sqlLex(q, dialect string) ([]sqlTok, string) {
	var out []sqlTok
	phSeq := 0
	for i := 0; i < len(q); {
		c := q[i]
		switch {
		case c == ' ' || c == '\t' || c == '\n' || c == '\r':
			i++
		case c == '?':
			if dialect != "mysql" {
				return nil, "syntax error at or near \"?\""
			}
			phSeq++
			out = append(out, sqlTok{kind: "ph", n: phSeq})
			i++
		case c == '$' || c == ':':
			if (c == '$' && dialect != "postgres") || (c == ':' && dialect != "oracle") {
				return nil, "syntax error at or near \"" + string(c) + "\""
			}
			j := i + 1
			for j < len(q) && q[j] >= '0' && q[j] <= '9' {
				j++
			}
			if j == i+1 {
				return nil, "syntax error: placeholder without a number"
			}
			n, _ := strconv.Atoi(q[i+1 : j])
			out = append(out, sqlTok{kind: "ph", n: n})
			i = j
		case c >= '0' && c <= '9':
			j := i
			for j < len(q) && q[j] >= '0' && q[j] <= '9' {
				j++
			}
			n, _ := strconv.Atoi(q[i:j])
			out = append(out, sqlTok{kind: "num", n: n, text: q[i:j]})
			i = j
		case c == '_' || (c >= 'a' && c <= 'z') || (c >= 'A' && c <= 'Z'):
			j := i
			for j < len(q) && (q[j] == '_' || (q[j] >= 'a' && q[j] <= 'z') || (q[j] >= 'A' && q[j] <= 'Z') || (q[j] >= '0' && q[j] <= '9')) {
				j++
			}
			out = append(out, sqlTok{kind: "word", text: q[i:j]})
			i = j
		case c == ',' || c == '(' || c == ')' || c == '=' || c == ';' || c == '*':
			out = append(out, sqlTok{kind: "sym", text: string(c)})
			i++
		default:
			return nil, "syntax error at or near \"" + string(c) + "\""
		}
	}
	return out, ""
}

type sqlStmt struct {
	kind     string // select | insert
	table    string
	selCols  []string
	where    [][2]interface{} // (column, placeholder index)
	orderBy  string
	desc     bool
	limit    int // 0 = none
	insCols  []string
	insPh    []int
	maxPh    int
	phInText []int
}

func sqlParse(q, dialect string) (*sqlStmt, string) {
	toks, e := sqlLex(q, dialect)
	if e != "" {
		return nil, e
	}
	p := 0
	peekWord := func(w string) bool {
		return p < len(toks) && toks[p].kind == "word" && strings.EqualFold(toks[p].text, w)
	}
	word := func(w string) bool {
		if peekWord(w) {
			p++
			return true
		}
		return false
	}
	sym := func(s string) bool {
		if p < len(toks) && toks[p].kind == "sym" && toks[p].text == s {
			p++
			return true
		}
		return false
	}
	ident := func() (string, bool) {
		if p < len(toks) && toks[p].kind == "word" {
			p++
			return strings.ToLower(toks[p-1].text), true
		}
		return "", false
	}
	st := &sqlStmt{}
	ph := func() (int, bool) {
		if p < len(toks) && toks[p].kind == "ph" {
			p++
			n := toks[p-1].n
			if n > st.maxPh {
				st.maxPh = n
			}
			return n, true
		}
		return 0, false
	}
	bad := func() (*sqlStmt, string) {
		at := "end of input"
		if p < len(toks) {
			at = toks[p].text
			if toks[p].kind == "ph" {
				at = "placeholder"
			}
		}
		return nil, "syntax error at or near \"" + at + "\""
	}
	switch {
	case word("select"):
		st.kind = "select"
		for {
			c, ok := ident()
			if !ok {
				return bad()
			}
			st.selCols = append(st.selCols, c)
			if !sym(",") {
				break
			}
		}
		if !word("from") {
			return bad()
		}
		t, ok := ident()
		if !ok {
			return bad()
		}
		st.table = t
		if word("where") {
			for {
				c, ok := ident()
				if !ok || !sym("=") {
					return bad()
				}
				n, ok := ph()
				if !ok {
					return bad()
				}
				st.where = append(st.where, [2]interface{}{c, n})
				if !word("and") {
					break
				}
			}
		}
		if word("order") {
			if !word("by") {
				return bad()
			}
			c, ok := ident()
			if !ok {
				return bad()
			}
			st.orderBy = c
			if word("desc") {
				st.desc = true
			} else {
				word("asc")
			}
		}
		if word("limit") {
			if p >= len(toks) || toks[p].kind != "num" || toks[p].n < 1 {
				return bad()
			}
			st.limit = toks[p].n
			p++
		}
	case word("insert"):
		st.kind = "insert"
		if !word("into") {
			return bad()
		}
		t, ok := ident()
		if !ok {
			return bad()
		}
		st.table = t
		if !sym("(") {
			return bad()
		}
		for {
			c, ok := ident()
			if !ok {
				return bad()
			}
			st.insCols = append(st.insCols, c)
			if !sym(",") {
				break
			}
		}
		if !sym(")") || !word("values") || !sym("(") {
			return bad()
		}
		for {
			n, ok := ph()
			if !ok {
				return bad()
			}
			st.insPh = append(st.insPh, n)
			if !sym(",") {
				break
			}
		}
		if !sym(")") {
			return bad()
		}
		if len(st.insPh) != len(st.insCols) {
			return nil, "column count doesn't match value count"
		}
	default:
		return bad()
	}
	sym(";")
	if p != len(toks) {
		return bad()
	}
	return st, ""
}

func (db *sqlDB) colIndex(c string) int {
	for i, n := range db.cols {
		if n == c {
			return i
		}
	}
	return -1
}

// sqlArg unwraps a driver argument (an interface holding string / time.Time / int64 / []byte).
func sqlArg(v Value) Value {
	if it, ok := v.(Iface); ok {
		return it.V
	}
	return v
}

func sqlTypeOK(col string, v Value) bool {
	switch col {
	case "id", "key_record":
		_, ok := v.(Str)
		return ok
	case "created":
		_, ok := v.(TimeV)
		return ok
	}
	return false
}

func (in *Interp) branch(c Bool) bool {
	if c.T == nil {
		return c.C
	}
	return in.decide([]*smt.Term{c.T, in.tb.Not(c.T)}, "if") == 0
}

func (in *Interp) sqlDBOf(v Value) *sqlDB {
	if p, ok := v.(*Value); ok && p != nil {
		if db, ok := in.side[p].(*sqlDB); ok {
			return db
		}
	}
	panic(inconclusive{"database/sql handle that was not opened by the SQL model (vx.SQLDB)"})
}

func (in *Interp) sqlSelect(db *sqlDB, st *sqlStmt, args []Value) sqlRowResult {
	if st.table != db.table {
		return sqlRowResult{err: "Table '" + st.table + "' doesn't exist"}
	}
	if st.maxPh != len(args) {
		return sqlRowResult{err: fmt.Sprintf("sql: expected %d arguments, got %d", st.maxPh, len(args))}
	}
	var selIdx []int
	for _, c := range st.selCols {
		i := db.colIndex(c)
		if i < 0 {
			return sqlRowResult{err: "Unknown column '" + c + "'"}
		}
		selIdx = append(selIdx, i)
	}
	type cond struct {
		col int
		val Value
	}
	var conds []cond
	for _, w := range st.where {
		c := w[0].(string)
		i := db.colIndex(c)
		if i < 0 {
			return sqlRowResult{err: "Unknown column '" + c + "'"}
		}
		n := w[1].(int)
		if n < 1 || n > len(args) {
			return sqlRowResult{err: "placeholder index out of range"}
		}
		v := sqlArg(args[n-1])
		if !sqlTypeOK(c, v) {
			return sqlRowResult{err: "Incorrect value for column '" + c + "'"}
		}
		conds = append(conds, cond{i, v})
	}
	ob := -1
	if st.orderBy != "" {
		ob = db.colIndex(st.orderBy)
		if ob < 0 {
			return sqlRowResult{err: "Unknown column '" + st.orderBy + "' in 'order clause'"}
		}
	}
	var hits [][]Value
	for _, r := range db.rows {
		ok := true
		for _, c := range conds {
			if !in.branch(in.equals(nil, r[c.col], c.val)) {
				ok = false
				break
			}
		}
		if ok {
			hits = append(hits, r)
		}
	}
	if len(hits) == 0 {
		return sqlRowResult{}
	}
	first := hits[0]
	if ob >= 0 {
		less := func(a, b Value) bool { // a sorts strictly before b
			switch x := a.(type) {
			case TimeV:
				if st.desc {
					return in.branch(in.timeLess(b.(TimeV), x))
				}
				return in.branch(in.timeLess(x, b.(TimeV)))
			case Str:
				y := b.(Str)
				if !x.IsConc() || !y.IsConc() {
					panic(inconclusive{"ORDER BY over symbolic strings"})
				}
				if st.desc {
					return y.S < x.S
				}
				return x.S < y.S
			}
			panic(inconclusive{"ORDER BY column type"})
		}
		for _, r := range hits[1:] {
			if less(r[ob], first[ob]) {
				first = r
			}
		}
		// rows that tie on the ORDER BY column come back in unspecified order; ties on (id, created) cannot exist
	} else if len(hits) > 1 {
		first = hits[in.decideN(len(hits), "sql:unordered-result")]
	}
	out := make([]Value, len(selIdx))
	for i, k := range selIdx {
		out[i] = first[k]
	}
	return sqlRowResult{vals: out}
}

func (in *Interp) sqlInsert(db *sqlDB, st *sqlStmt, args []Value) string {
	if st.table != db.table {
		return "Table '" + st.table + "' doesn't exist"
	}
	if st.maxPh != len(args) {
		return fmt.Sprintf("sql: expected %d arguments, got %d", st.maxPh, len(args))
	}
	row := make([]Value, len(db.cols))
	for i, c := range st.insCols {
		k := db.colIndex(c)
		if k < 0 {
			return "Unknown column '" + c + "' in 'field list'"
		}
		n := st.insPh[i]
		if n < 1 || n > len(args) {
			return "placeholder index out of range"
		}
		v := sqlArg(args[n-1])
		if !sqlTypeOK(c, v) {
			return "Incorrect value for column '" + c + "'"
		}
		row[k] = v
	}
	for i, v := range row {
		if v == nil {
			return "Field '" + db.cols[i] + "' doesn't have a default value"
		}
	}
	idc, cc := db.colIndex("id"), db.colIndex("created")
	for _, r := range db.rows {
		same := in.andB(in.equals(nil, r[idc], row[idc]), in.equals(nil, r[cc], row[cc]))
		if in.branch(same) {
			return "Error 1062 (23000): Duplicate entry for key 'PRIMARY'"
		}
	}
	db.rows = append(db.rows, row)
	return ""
}

func init() {
	reg := func(name string, f intrinsic) { intrinsics[name] = f }
	reg("verifh/vx.SQLDB", func(in *Interp, fr *frame, a []Value) Value {
		dialect := strArg(a[0])
		switch dialect {
		case "mysql", "postgres", "oracle":
		default:
			panic(inconclusive{"SQL dialect " + dialect})
		}
		cell := new(Value)
		*cell = Struct{}
		in.side[cell] = &sqlDB{dialect: dialect, table: "encryption_key", cols: []string{"id", "created", "key_record"}}
		return cell
	})
	reg("verifh/vx.SQLRows", func(in *Interp, fr *frame, a []Value) Value {
		return mkBV(64, uint64(len(in.sqlDBOf(a[0]).rows)))
	})
	reg("verifh/vx.SQLRowText", func(in *Interp, fr *frame, a []Value) Value {
		db := in.sqlDBOf(a[0])
		i := int(in.concInt(a[1], "row index"))
		return db.rows[i][db.colIndex("key_record")]
	})
	reg("verifh/vx.SQLRowID", func(in *Interp, fr *frame, a []Value) Value {
		db := in.sqlDBOf(a[0])
		return db.rows[int(in.concInt(a[1], "row index"))][db.colIndex("id")]
	})
	reg("verifh/vx.SQLRowCreated", func(in *Interp, fr *frame, a []Value) Value {
		db := in.sqlDBOf(a[0])
		t := db.rows[int(in.concInt(a[1], "row index"))][db.colIndex("created")].(TimeV)
		if t.Nsec.T != nil || t.Nsec.C != 0 {
			in.goPanic("created column holds a timestamp with fractional seconds")
		}
		return t.Sec
	})
	reg("verifh/vx.SQLInsertRaw", func(in *Interp, fr *frame, a []Value) Value {
		db := in.sqlDBOf(a[0])
		sec := a[2].(BV)
		db.rows = append(db.rows, []Value{a[1], TimeV{Sec: sec, Nsec: mkBV(64, 0)}, a[3]})
		return nil
	})
	reg("(*database/sql.DB).QueryRowContext", func(in *Interp, fr *frame, a []Value) Value {
		db := in.sqlDBOf(a[0])
		db.queries++
		q := a[2].(Str)
		if !q.IsConc() {
			panic(inconclusive{"symbolic SQL text"})
		}
		var res sqlRowResult
		st, e := sqlParse(q.S, db.dialect)
		switch {
		case e != "":
			res = sqlRowResult{err: e}
		case st.kind != "select":
			res = sqlRowResult{err: "statement does not return rows"}
		default:
			res = in.sqlSelect(db, st, variadic(a[3]))
		}
		// the statement was accepted, fetching its row may still fail (dropped connection, statement killed, ...)
		if res.err == "" && in.maybeFault("read", "sql.fetch") {
			res = sqlRowResult{err: "driver: bad connection"}
		}
		cell := new(Value)
		*cell = Struct{}
		in.side[cell] = &res
		return cell
	})
	// the multi-row API over the same single-row results (the metastore's statements return at most one row)
	reg("(*database/sql.DB).QueryContext", func(in *Interp, fr *frame, a []Value) Value {
		db := in.sqlDBOf(a[0])
		db.queries++
		q := a[2].(Str)
		if !q.IsConc() {
			panic(inconclusive{"symbolic SQL text"})
		}
		st, e := sqlParse(q.S, db.dialect)
		if e == "" && st.kind != "select" {
			e = "statement does not return rows"
		}
		if e != "" {
			return Tuple{(*Value)(nil), in.errorValue(e)}
		}
		res := in.sqlSelect(db, st, variadic(a[3]))
		if res.err != "" {
			return Tuple{(*Value)(nil), in.errorValue(res.err)}
		}
		rs := &sqlRowsState{res: res}
		if in.maybeFault("read", "sql.fetch") {
			rs.fetchErr = "driver: bad connection"
		}
		cell := new(Value)
		*cell = Struct{}
		in.side[cell] = rs
		return Tuple{cell, nilError()}
	})
	rowsOf := func(in *Interp, v Value) *sqlRowsState {
		p, _ := v.(*Value)
		rs, ok := in.side[p].(*sqlRowsState)
		if !ok {
			panic(inconclusive{"sql.Rows not produced by the SQL model"})
		}
		return rs
	}
	reg("(*database/sql.Rows).Next", func(in *Interp, fr *frame, a []Value) Value {
		rs := rowsOf(in, a[0])
		rs.current = false
		if rs.closed || rs.fetchErr != "" || rs.consumed || rs.res.vals == nil {
			rs.closed = true
			return Bool{C: false}
		}
		rs.consumed, rs.current = true, true
		return Bool{C: true}
	})
	reg("(*database/sql.Rows).Err", func(in *Interp, fr *frame, a []Value) Value {
		rs := rowsOf(in, a[0])
		if rs.fetchErr != "" {
			return in.errorValue(rs.fetchErr)
		}
		return nilError()
	})
	reg("(*database/sql.Rows).Close", func(in *Interp, fr *frame, a []Value) Value {
		rs := rowsOf(in, a[0])
		rs.closed, rs.current = true, false
		return nilError()
	})
	reg("(*database/sql.Rows).Scan", func(in *Interp, fr *frame, a []Value) Value {
		rs := rowsOf(in, a[0])
		if rs.closed && !rs.current {
			return in.errorValue("sql: Rows are closed")
		}
		if !rs.current {
			return in.errorValue("sql: Scan called without calling Next")
		}
		return in.sqlScanInto(rs.res.vals, variadic(a[1]))
	})
	reg("(*database/sql.Row).Scan", func(in *Interp, fr *frame, a []Value) Value {
		p, _ := a[0].(*Value)
		res, ok := in.side[p].(*sqlRowResult)
		if !ok {
			panic(inconclusive{"sql.Row not produced by the SQL model"})
		}
		if res.err != "" {
			return in.errorValue(res.err)
		}
		if res.vals == nil {
			g := in.prog.ImportedPackage("database/sql").Var("ErrNoRows")
			return (*in.global(g)).(Iface)
		}
		return in.sqlScanInto(res.vals, variadic(a[1]))
	})
	reg("(*database/sql.Row).Err", func(in *Interp, fr *frame, a []Value) Value {
		p, _ := a[0].(*Value)
		if res, ok := in.side[p].(*sqlRowResult); ok && res.err != "" {
			return in.errorValue(res.err)
		}
		return nilError()
	})
	reg("(*database/sql.DB).ExecContext", func(in *Interp, fr *frame, a []Value) Value {
		db := in.sqlDBOf(a[0])
		db.execs++
		q := a[2].(Str)
		if !q.IsConc() {
			panic(inconclusive{"symbolic SQL text"})
		}
		st, e := sqlParse(q.S, db.dialect)
		if e == "" && st.kind != "insert" {
			e = "the SQL model executes INSERT statements only"
		}
		if e == "" {
			e = in.sqlInsert(db, st, variadic(a[3]))
		}
		if e != "" {
			return Tuple{Iface{}, in.errorValue(e)}
		}
		return Tuple{Iface{T: objType("sql.Result"), V: &Obj{Kind: "sql.Result"}}, nilError()}
	})
	objMethods["sql.Result.RowsAffected"] = func(in *Interp, fr *frame, o *Obj, a []Value) Value {
		return Tuple{mkBV(64, 1), nilError()}
	}
	objMethods["sql.Result.LastInsertId"] = func(in *Interp, fr *frame, o *Obj, a []Value) Value {
		return Tuple{mkBV(64, 0), nilError()}
	}

	// regexp: only what SQLMetastoreDBType.q needs — ReplaceAllStringFunc over concrete text
	reg("regexp.MustCompile", func(in *Interp, fr *frame, a []Value) Value {
		pat, ok := a[0].(Str)
		if !ok || !pat.IsConc() {
			return &Obj{Kind: "opaque"}
		}
		return &Obj{Kind: "regexp", X: pat.S}
	})
	reg("(*regexp.Regexp).ReplaceAllStringFunc", func(in *Interp, fr *frame, a []Value) Value {
		o, ok := a[0].(*Obj)
		src, ok2 := a[1].(Str)
		if !ok || o == nil || o.Kind != "regexp" || !ok2 || !src.IsConc() {
			panic(inconclusive{"regexp on symbolic data"})
		}
		re, err := regexp.Compile(o.X.(string))
		if err != nil {
			in.goPanic("regexp: Compile: " + err.Error())
		}
		out := re.ReplaceAllStringFunc(src.S, func(m string) string {
			r, ok := in.call(fr, a[2], []Value{Str{S: m}}).(Str)
			if !ok || !r.IsConc() {
				panic(inconclusive{"regexp replacement function returned symbolic text"})
			}
			return r.S
		})
		return Str{S: out}
	})
	reg("(*regexp.Regexp).MatchString", func(in *Interp, fr *frame, a []Value) Value {
		o, ok := a[0].(*Obj)
		src, ok2 := a[1].(Str)
		if !ok || o == nil || o.Kind != "regexp" || !ok2 || !src.IsConc() {
			panic(inconclusive{"regexp on symbolic data"})
		}
		re, err := regexp.Compile(o.X.(string))
		if err != nil {
			in.goPanic("regexp: Compile: " + err.Error())
		}
		return Bool{C: re.MatchString(src.S)}
	})
	_ = token.ADD
}

type sqlRowsState struct {
	res                       sqlRowResult
	fetchErr                  string
	consumed, current, closed bool
}

// sqlScanInto copies one result row into Scan's destinations.
func (in *Interp) sqlScanInto(vals []Value, dest []Value) Value {
	if len(dest) != len(vals) {
		return in.errorValue(fmt.Sprintf("sql: expected %d destination arguments in Scan, not %d", len(vals), len(dest)))
	}
	for i, d := range dest {
		dp, ok := d.(Iface).V.(*Value)
		if !ok || dp == nil {
			return in.errorValue("sql: Scan destination is not a pointer")
		}
		switch (*dp).(type) {
		case Str:
			s, ok := vals[i].(Str)
			if !ok {
				return in.errorValue("sql: Scan error: unsupported conversion into string")
			}
			*dp = s
		case TimeV:
			t, ok := vals[i].(TimeV)
			if !ok {
				return in.errorValue("sql: Scan error: unsupported conversion into time.Time")
			}
			*dp = t
		default:
			panic(inconclusive{"sql Scan destination type"})
		}
	}
	return nilError()
}
