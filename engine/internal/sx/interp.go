package sx

import (
	"fmt"
	"go/token"
	"go/types"
	"os"
	"runtime/debug"
	"slices"
	"strings"
	"sync"

	"golang.org/x/tools/go/ssa"

	"verifh/internal/smt"
)

// ---- control sentinels (host panics) ----

type targetPanic struct{ v Value }        // a Go-level panic in the interpreted program
type pathAbort struct{ reason string }    // the path is infeasible / ended by assume(false)
type inconclusive struct{ reason string } // the engine cannot decide this path
type threadKill struct{}                  // unwinds a parked thread at path end
type pathEnd struct{}                     // harness asked to stop the path (vx.Stop)

type decision struct {
	N      int
	Chosen int
	Pushes bool // the chosen alternative's constraint lives in its own solver frame
	Kind   string
}

type deferred struct {
	fn   Value
	args []Value
	tail *deferred
}

type frame struct {
	in        *Interp
	th        *Thread
	caller    *frame
	fn        *ssa.Function
	block     *ssa.BasicBlock
	prevBlock *ssa.BasicBlock
	env       map[ssa.Value]Value
	locals    []Value
	defers    *deferred
	result    Value
	panicking bool
	panicVal  interface{}
	phitemps  []Value
}

// Interp holds the program and the state of the path being executed.
type Interp struct {
	prog *ssa.Program
	tb   *smt.Table
	sol  *smt.Solver
	cfg  *Config
	ex   *Explorer

	// path state
	prefix    []decision
	log       []decision
	silent    int  // decisions [0,silent) and the assertions before decision `silent` are already in the solver
	live      bool // assertions are being sent
	pc        []*smt.Term
	inputs    []*smt.Term
	inputSeen map[*smt.Term]bool
	steps     int
	globals   map[*ssa.Global]*Value
	initDone  map[*ssa.Package]bool
	side      map[*Value]interface{}
	names     map[string]int
	res       *PathResult
	m         *models

	threads      []*Thread
	cur          *Thread
	pending      interface{} // sentinel raised in a non-main thread, to be re-raised in main
	killed       bool
	preempts     int
	freeSwitches int

	fnStats    map[*ssa.Function]int
	traceStack string
	localWork  [][]decision
	holding    bool
	wg         sync.WaitGroup
}

func (in *Interp) get(fr *frame, key ssa.Value) Value {
	switch key := key.(type) {
	case nil:
		return nil
	case *ssa.Function:
		return key
	case *ssa.Builtin:
		return key
	case *ssa.Const:
		return in.constValue(key)
	case *ssa.Global:
		return in.global(key)
	}
	if r, ok := fr.env[key]; ok {
		return r
	}
	panic(fmt.Sprintf("get: no value for %T: %v in %s", key, key.Name(), fr.fn))
}

func (in *Interp) global(g *ssa.Global) *Value {
	if p, ok := in.globals[g]; ok {
		return p
	}
	// lazily created; repo-owned packages get their init run on first touch
	if g.Pkg != nil {
		in.ensureInit(g.Pkg)
		if p, ok := in.globals[g]; ok {
			return p
		}
	}
	v := in.zero(deref(g.Type()))
	p := &v
	in.globals[g] = p
	if g.Pkg != nil && !in.cfg.isRepoPkg(g.Pkg.Pkg.Path()) {
		in.initDepGlobal(g, p)
	}
	return p
}

func deref(t types.Type) types.Type {
	if p, ok := t.Underlying().(*types.Pointer); ok {
		return p.Elem()
	}
	panic("deref of non-pointer " + t.String())
}

// ensureInit runs the package initialiser of a repo-owned (or harness) package once per path.
func (in *Interp) ensureInit(pkg *ssa.Package) {
	if in.initDone[pkg] {
		return
	}
	in.initDone[pkg] = true
	if !in.cfg.isRepoPkg(pkg.Pkg.Path()) {
		return
	}
	for _, m := range pkg.Members {
		if g, ok := m.(*ssa.Global); ok {
			if _, ok := in.globals[g]; !ok {
				v := in.zero(deref(g.Type()))
				in.globals[g] = &v
			}
		}
	}
	// imports first
	for _, imp := range pkg.Pkg.Imports() {
		if ip := in.prog.Package(imp); ip != nil && in.cfg.isRepoPkg(imp.Path()) {
			in.ensureInit(ip)
		}
	}
	if noInitPkgs[pkg.Pkg.Path()] {
		return // generated code whose initialiser only registers descriptors with a runtime that is not modelled
	}
	if f := pkg.Func("init"); f != nil {
		in.call(nil, f, nil)
	}
}

// goPanic raises a Go runtime panic in the interpreted program.
func (in *Interp) goPanic(msg string) {
	panic(targetPanic{Iface{T: in.runtimeErrorType(), V: Str{S: msg}}})
}

func (in *Interp) runtimeErrorType() types.Type {
	if p := in.prog.ImportedPackage("runtime"); p != nil {
		if t := p.Type("errorString"); t != nil {
			return t.Object().Type()
		}
	}
	return types.Typ[types.String]
}

func (fr *frame) runDefers() {
	for d := fr.defers; d != nil; d = d.tail {
		fr.runDefer(d)
	}
	fr.defers = nil
	if fr.panicking {
		panic(fr.panicVal)
	}
}

func (fr *frame) runDefer(d *deferred) {
	var ok bool
	defer func() {
		if !ok {
			r := recover()
			if _, isT := r.(targetPanic); !isT {
				panic(r) // engine sentinel: propagate untouched
			}
			fr.panicking = true
			fr.panicVal = r
		}
	}()
	fr.in.call(fr, d.fn, d.args)
	ok = true
}

func (in *Interp) lookupMethod(typ types.Type, meth *types.Func) *ssa.Function {
	return in.prog.LookupMethod(typ, meth.Pkg(), meth.Name())
}

func (in *Interp) prepareCall(fr *frame, call *ssa.CallCommon) (fn Value, args []Value) {
	v := in.get(fr, call.Value)
	if call.Method == nil {
		fn = v
	} else {
		recv := v.(Iface)
		if recv.T == nil {
			if os.Getenv("GOSX_TRACE_GLOBALS") != "" {
				fmt.Fprintln(os.Stderr, "NILIFACE in", fr.fn, "call", call.String(), stackOf(fr))
			}
			in.goPanic("runtime error: invalid memory address or nil pointer dereference (method " + call.Method.Name() + " invoked on nil interface)")
		}
		if o, ok := recv.V.(*Obj); ok && o != nil && o.Kind != "" {
			if h := objMethods[o.Kind+"."+call.Method.Name()]; h != nil {
				fn = &objCall{o: o, h: h, name: o.Kind + "." + call.Method.Name()}
				for _, arg := range call.Args {
					args = append(args, in.get(fr, arg))
				}
				return
			}
		}
		f := in.lookupMethod(recv.T, call.Method)
		if f == nil {
			panic(fmt.Sprintf("method set for dynamic type %v does not contain %s", recv.T, call.Method))
		}
		fn = f
		args = append(args, recv.V)
	}
	for _, arg := range call.Args {
		args = append(args, in.get(fr, arg))
	}
	return
}

type objCall struct {
	o    *Obj
	h    func(in *Interp, fr *frame, o *Obj, args []Value) Value
	name string
}

func (in *Interp) call(caller *frame, fn Value, args []Value) Value {
	switch fn := fn.(type) {
	case *ssa.Function:
		if fn == nil {
			in.goPanic("runtime error: invalid memory address or nil pointer dereference (call of nil func)")
		}
		return in.callSSA(caller, fn, args, nil)
	case *Closure:
		if fn == nil {
			in.goPanic("runtime error: invalid memory address or nil pointer dereference (call of nil func)")
		}
		return in.callSSA(caller, fn.Fn, args, fn.Env)
	case *ssa.Builtin:
		return in.callBuiltin(caller, fn, args)
	case *objCall:
		in.res.stub(fn.name)
		return fn.h(in, caller, fn.o, args)
	case nil:
		in.goPanic("runtime error: invalid memory address or nil pointer dereference (call of nil func)")
	}
	panic(fmt.Sprintf("cannot call %T", fn))
}

func (in *Interp) callSSA(caller *frame, fn *ssa.Function, args []Value, env []Value) Value {
	th := in.cur
	if caller != nil {
		th = caller.th
	}
	fr := &frame{in: in, th: th, caller: caller, fn: fn}
	name := fn.String()
	if traceCalls {
		fmt.Fprintf(os.Stderr, "CALL %s %v\n", name, args)
		for _, a := range args {
			if p, ok := a.(*Value); ok && p != nil {
				fmt.Fprintf(os.Stderr, "   *arg = %.300v\n", *p)
			}
		}
	}
	if fn.Parent() == nil || fn.Synthetic != "" {
		if ext := intrinsics[name]; ext != nil {
			in.res.stub(name)
			return ext(in, fr, args)
		}
		if co := concreteOnly[name]; co != nil {
			if r, ok := co(in, args); ok {
				return r
			}
		}
		if fn.Origin() != nil {
			if ext := intrinsics[fn.Origin().String()]; ext != nil {
				in.res.stub(fn.Origin().String())
				return ext(in, fr, args)
			}
		}
	}
	if fn.Pkg != nil && fn.Name() == "init" && fn.Parent() == nil && fn.Signature.Recv() == nil && (!in.cfg.isRepoPkg(fn.Pkg.Pkg.Path()) || noInitPkgs[fn.Pkg.Pkg.Path()]) {
		return nil // dependency package initialisers are not executed (DESIGN 2.2)
	}
	if fn.Blocks == nil {
		// synthesized wrappers etc. are built lazily by ssa; external funcs have no body
		panic(inconclusive{"no code for function: " + name})
	}
	if fn.Pkg != nil {
		path := fn.Pkg.Pkg.Path()
		if in.cfg.isRepoPkg(path) {
			in.ensureInit(fn.Pkg)
			in.fnStats[fn]++
			if caller != nil && in.m != nil {
				in.m.edges[caller.fn.Name()+">"+fn.Name()]++
			}
		} else if !in.cfg.allowed(path) && !allowedFuncs[name] {
			panic(inconclusive{"unmodelled function " + name + " (package " + path + " is neither intercepted nor on the interpret-from-source list)"})
		}
	}
	if fn.TypeParams().Len() > 0 && len(fn.TypeArgs()) == 0 {
		panic(inconclusive{"uninstantiated generic function " + name})
	}
	fr.env = make(map[ssa.Value]Value, 16)
	fr.block = fn.Blocks[0]
	fr.locals = make([]Value, len(fn.Locals))
	for i, l := range fn.Locals {
		fr.locals[i] = in.zero(deref(l.Type()))
		fr.env[l] = &fr.locals[i]
	}
	for i, p := range fn.Params {
		fr.env[p] = args[i]
	}
	for i, fv := range fn.FreeVars {
		fr.env[fv] = env[i]
	}
	if th != nil {
		// per-thread stack of interpreted functions (vx.PreemptWithin restricts pre-emption to code running under a
		// named function)
		th.fnStack = append(th.fnStack, fn)
		defer func() { th.fnStack = th.fnStack[:len(th.fnStack)-1] }()
	}
	for fr.block != nil {
		in.runFrame(fr)
	}
	return fr.result
}

func (in *Interp) runFrame(fr *frame) {
	defer func() {
		if fr.block == nil {
			return // normal return
		}
		r := recover()
		if _, ok := r.(targetPanic); !ok {
			panic(r) // sentinel or engine bug: no interpreted defers
		}
		fr.panicking = true
		fr.panicVal = r
		fr.runDefers()
		fr.block = fr.fn.Recover
		if fr.block == nil {
			// recovered but the function has no recover block: return zero values
			fr.result = in.zeroResults(fr.fn)
		}
	}()
	for {
		nonPhis := in.executePhis(fr)
		for _, instr := range nonPhis {
			in.steps++
			if in.steps > in.cfg.MaxSteps {
				panic(inconclusive{fmt.Sprintf("instruction budget %d exhausted", in.cfg.MaxSteps)})
			}
			if in.visitInstr(fr, instr) == kReturn {
				return
			}
			if fr.block == nil {
				return
			}
			if _, isJump := instr.(*ssa.If); isJump {
				break
			}
			if _, isJump := instr.(*ssa.Jump); isJump {
				break
			}
		}
	}
}

func (in *Interp) zeroResults(fn *ssa.Function) Value {
	res := fn.Signature.Results()
	switch res.Len() {
	case 0:
		return nil
	case 1:
		return in.zero(res.At(0).Type())
	}
	t := make(Tuple, res.Len())
	for i := range t {
		t[i] = in.zero(res.At(i).Type())
	}
	return t
}

func (in *Interp) executePhis(fr *frame) []ssa.Instruction {
	firstNonPhi := -1
	for i, instr := range fr.block.Instrs {
		if _, ok := instr.(*ssa.Phi); !ok {
			firstNonPhi = i
			break
		}
	}
	nonPhis := fr.block.Instrs[firstNonPhi:]
	if firstNonPhi > 0 {
		phis := fr.block.Instrs[:firstNonPhi]
		predIndex := slices.Index(fr.block.Preds, fr.prevBlock)
		fr.phitemps = fr.phitemps[:0]
		for _, phi := range phis {
			phi := phi.(*ssa.Phi)
			fr.phitemps = append(fr.phitemps, in.get(fr, phi.Edges[predIndex]))
		}
		for i, phi := range phis {
			fr.env[phi.(*ssa.Phi)] = fr.phitemps[i]
		}
	}
	return nonPhis
}

type continuation int

const (
	kNext continuation = iota
	kReturn
	kJump
)

func (in *Interp) visitInstr(fr *frame, instr ssa.Instruction) continuation {
	if traceCalls && strings.Contains(fr.fn.Name(), "reset") {
		fmt.Fprintf(os.Stderr, "  INSTR %s\n", instr.String())
	}
	switch instr := instr.(type) {
	case *ssa.DebugRef:

	case *ssa.UnOp:
		fr.env[instr] = in.unop(instr, in.get(fr, instr.X), fr)

	case *ssa.BinOp:
		fr.env[instr] = in.binop(instr.Op, instr.X.Type(), in.get(fr, instr.X), in.get(fr, instr.Y))

	case *ssa.Call:
		fn, args := in.prepareCall(fr, &instr.Call)
		fr.env[instr] = in.call(fr, fn, args)

	case *ssa.ChangeInterface:
		fr.env[instr] = in.get(fr, instr.X)

	case *ssa.ChangeType:
		fr.env[instr] = in.get(fr, instr.X)

	case *ssa.Convert:
		fr.env[instr] = in.conv(instr.Type(), instr.X.Type(), in.get(fr, instr.X))

	case *ssa.MultiConvert:
		fr.env[instr] = in.conv(instr.Type(), instr.X.Type(), in.get(fr, instr.X))

	case *ssa.SliceToArrayPointer:
		s := in.get(fr, instr.X).(Slice)
		arr := deref(instr.Type()).Underlying().(*types.Array)
		if int(arr.Len()) > len(s.A) {
			in.goPanic("runtime error: cannot convert slice to array pointer: length mismatch")
		}
		if s.Nil {
			fr.env[instr] = (*Value)(nil)
		} else {
			var v Value = Array(s.A[:arr.Len()])
			fr.env[instr] = &v
		}

	case *ssa.MakeInterface:
		fr.env[instr] = Iface{T: instr.X.Type(), V: in.get(fr, instr.X)}

	case *ssa.Extract:
		fr.env[instr] = in.get(fr, instr.Tuple).(Tuple)[instr.Index]

	case *ssa.Slice:
		fr.env[instr] = in.sliceOp(instr, in.get(fr, instr.X), in.get(fr, instr.Low), in.get(fr, instr.High), in.get(fr, instr.Max))

	case *ssa.Return:
		switch len(instr.Results) {
		case 0:
		case 1:
			fr.result = in.get(fr, instr.Results[0])
		default:
			res := make(Tuple, len(instr.Results))
			for i, r := range instr.Results {
				res[i] = in.get(fr, r)
			}
			fr.result = res
		}
		fr.block = nil
		return kReturn

	case *ssa.RunDefers:
		fr.runDefers()

	case *ssa.Panic:
		panic(targetPanic{in.get(fr, instr.X)})

	case *ssa.Send:
		in.chanSend(in.get(fr, instr.Chan).(*Chan), in.get(fr, instr.X))

	case *ssa.Store:
		p := in.get(fr, instr.Addr).(*Value)
		if p == nil {
			in.goPanic("runtime error: invalid memory address or nil pointer dereference")
		}
		in.memAccess(p, true)
		storeInto(p, copyVal(in.get(fr, instr.Val)))

	case *ssa.If:
		succ := 1
		c := in.get(fr, instr.Cond).(Bool)
		if c.T == nil {
			if c.C {
				succ = 0
			}
		} else {
			succ = in.decide([]*smt.Term{c.T, in.tb.Not(c.T)}, "if")
		}
		fr.prevBlock, fr.block = fr.block, fr.block.Succs[succ]
		return kJump

	case *ssa.Jump:
		fr.prevBlock, fr.block = fr.block, fr.block.Succs[0]
		return kJump

	case *ssa.Defer:
		fn, args := in.prepareCall(fr, &instr.Call)
		defers := &fr.defers
		if instr.DeferStack != nil {
			if into := in.get(fr, instr.DeferStack); into != nil {
				defers = into.(**deferred)
			}
		}
		*defers = &deferred{fn: fn, args: args, tail: *defers}

	case *ssa.Go:
		fn, args := in.prepareCall(fr, &instr.Call)
		in.spawn(fn, args)

	case *ssa.MakeChan:
		n := in.concInt(in.get(fr, instr.Size), "chan size")
		fr.env[instr] = &Chan{Cap: int(n), ElemT: instr.Type().Underlying().(*types.Chan).Elem()}

	case *ssa.Alloc:
		var addr *Value
		if instr.Heap {
			addr = new(Value)
			fr.env[instr] = addr
		} else {
			addr = fr.env[instr].(*Value)
		}
		*addr = in.zero(deref(instr.Type()))

	case *ssa.MakeSlice:
		c := in.concIntRange(in.get(fr, instr.Cap), "make cap")
		l := in.concIntRange(in.get(fr, instr.Len), "make len")
		if l < 0 || c < l {
			in.goPanic("runtime error: makeslice: len out of range")
		}
		if c > 1<<24 {
			panic(inconclusive{"make([]T, n) with n > 2^24"})
		}
		s := make([]Value, c)
		tElt := instr.Type().Underlying().(*types.Slice).Elem()
		for i := range s {
			s[i] = in.zero(tElt)
		}
		fr.env[instr] = Slice{A: s[:l]}

	case *ssa.MakeMap:
		fr.env[instr] = &Map{KeyT: instr.Type().Underlying().(*types.Map).Key()}

	case *ssa.Range:
		fr.env[instr] = in.rangeIter(in.get(fr, instr.X), instr.X.Type())

	case *ssa.Next:
		fr.env[instr] = in.get(fr, instr.Iter).(iter).next(in)

	case *ssa.FieldAddr:
		p := in.get(fr, instr.X).(*Value)
		if p == nil {
			in.goPanic("runtime error: invalid memory address or nil pointer dereference")
		}
		fr.env[instr] = &(*p).(Struct)[instr.Field]

	case *ssa.Field:
		fr.env[instr] = copyVal(in.get(fr, instr.X).(Struct)[instr.Field])

	case *ssa.IndexAddr:
		x := in.get(fr, instr.X)
		idx := in.get(fr, instr.Index)
		switch x := x.(type) {
		case Slice:
			i := in.index(idx, len(x.A))
			fr.env[instr] = &x.A[i]
		case *Value:
			if x == nil {
				in.goPanic("runtime error: invalid memory address or nil pointer dereference")
			}
			a := (*x).(Array)
			i := in.index(idx, len(a))
			fr.env[instr] = &a[i]
		default:
			panic(fmt.Sprintf("unexpected x type in IndexAddr: %T", x))
		}

	case *ssa.Index:
		x := in.get(fr, instr.X)
		idx := in.get(fr, instr.Index)
		switch x := x.(type) {
		case Array:
			fr.env[instr] = copyVal(x[in.index(idx, len(x))])
		case Str:
			if !x.IsConc() {
				panic(inconclusive{"index into symbolic string"})
			}
			fr.env[instr] = mkBV(8, uint64(x.S[in.index(idx, len(x.S))]))
		default:
			panic(fmt.Sprintf("unexpected x type in Index: %T", x))
		}

	case *ssa.Lookup:
		fr.env[instr] = in.lookup(instr, in.get(fr, instr.X), in.get(fr, instr.Index))

	case *ssa.MapUpdate:
		m := in.get(fr, instr.Map).(*Map)
		if m == nil {
			in.goPanic("assignment to entry in nil map")
		}
		in.mapInsert(m, in.get(fr, instr.Key), copyVal(in.get(fr, instr.Value)))

	case *ssa.TypeAssert:
		fr.env[instr] = in.typeAssert(instr, in.get(fr, instr.X).(Iface))

	case *ssa.MakeClosure:
		var bindings []Value
		for _, b := range instr.Bindings {
			bindings = append(bindings, in.get(fr, b))
		}
		fr.env[instr] = &Closure{Fn: instr.Fn.(*ssa.Function), Env: bindings}

	case *ssa.Select:
		fr.env[instr] = in.selectOp(fr, instr)

	default:
		panic(fmt.Sprintf("unexpected instruction: %T", instr))
	}
	return kNext
}

func (in *Interp) typeAssert(instr *ssa.TypeAssert, itf Iface) Value {
	var v Value
	errs := ""
	if itf.T == nil {
		errs = fmt.Sprintf("interface conversion: interface is nil, not %s", instr.AssertedType)
	} else if idst, ok := instr.AssertedType.Underlying().(*types.Interface); ok {
		v = itf
		if meth, _ := types.MissingMethod(itf.T, idst, true); meth != nil {
			errs = fmt.Sprintf("interface conversion: %v is not %v: missing method %s", itf.T, instr.AssertedType, meth.Name())
		}
	} else if types.Identical(itf.T, instr.AssertedType) {
		v = itf.V
	} else {
		errs = fmt.Sprintf("interface conversion: interface is %s, not %s", itf.T, instr.AssertedType)
	}
	if errs != "" {
		if !instr.CommaOk {
			in.goPanic(errs)
		}
		return Tuple{in.zero(instr.AssertedType), Bool{C: false}}
	}
	if instr.CommaOk {
		return Tuple{v, Bool{C: true}}
	}
	return v
}

// concInt returns the concrete value of an integer, or aborts as inconclusive.
func (in *Interp) concInt(v Value, what string) int64 {
	b := v.(BV)
	if b.T != nil {
		panic(inconclusive{"symbolic " + what})
	}
	return b.Signed()
}

// concIntRange concretises a possibly symbolic non-negative size by case-splitting
// over its feasible values (bounded by cfg.MaxSplit).
func (in *Interp) concIntRange(v Value, what string) int64 {
	if v == nil {
		return 0
	}
	b := v.(BV)
	if b.T == nil {
		return b.Signed()
	}
	return in.splitValues(b, what)
}

// splitValues forks on each feasible concrete value of b.
func (in *Interp) splitValues(b BV, what string) int64 {
	// If replaying, the chosen value is encoded in the decision log through the
	// enumeration order, which is deterministic (ascending unsigned search by the solver is not);
	// so enumerate candidates 0..MaxSplit explicitly.
	n := in.cfg.MaxSplit
	alts := make([]*smt.Term, 0, n+2)
	for i := 0; i <= n; i++ {
		alts = append(alts, in.tb.Eq(b.T, in.tb.BV(int(b.W), uint64(i))))
	}
	// everything else (negative or too big)
	alts = append(alts, in.tb.BVCmp("bvugt", b.T, in.tb.BV(int(b.W), uint64(n))))
	k := in.decide(alts, "split:"+what)
	if k > n {
		panic(inconclusive{fmt.Sprintf("symbolic %s may exceed the split bound %d", what, n)})
	}
	return int64(k)
}

// index checks bounds (forking on a symbolic index) and returns a concrete index.
func (in *Interp) index(idx Value, n int) int {
	b := idx.(BV)
	if b.T == nil {
		i := b.Signed()
		if i < 0 || i >= int64(n) {
			in.goPanic(fmt.Sprintf("runtime error: index out of range [%d] with length %d", i, n))
		}
		return int(i)
	}
	alts := make([]*smt.Term, 0, n+1)
	for i := 0; i < n; i++ {
		alts = append(alts, in.tb.Eq(b.T, in.tb.BV(int(b.W), uint64(i))))
	}
	alts = append(alts, in.tb.BVCmp("bvuge", b.T, in.tb.BV(int(b.W), uint64(n))))
	k := in.decide(alts, "index")
	if k == n {
		in.goPanic(fmt.Sprintf("runtime error: index out of range [symbolic] with length %d", n))
	}
	return k
}

func (in *Interp) sliceOp(instr *ssa.Slice, x, lo, hi, max Value) Value {
	var Len, Cap int
	var arr []Value
	isStr := false
	var str Str
	switch x := x.(type) {
	case Str:
		if !x.IsConc() {
			panic(inconclusive{"slicing a symbolic string"})
		}
		isStr, str = true, x
		Len, Cap = len(x.S), len(x.S)
	case Slice:
		arr = x.A
		Len, Cap = len(x.A), cap(x.A)
	case *Value:
		if x == nil {
			in.goPanic("runtime error: invalid memory address or nil pointer dereference")
		}
		a := (*x).(Array)
		arr = a
		Len, Cap = len(a), len(a)
	}
	l := int64(0)
	if lo != nil {
		l = in.concIntRange(lo, "slice low")
	}
	h := int64(Len)
	if hi != nil {
		h = in.concIntRange(hi, "slice high")
	}
	m := int64(Cap)
	if max != nil {
		m = in.concIntRange(max, "slice max")
	}
	if isStr {
		if l < 0 || h < l || h > int64(Len) {
			in.goPanic(fmt.Sprintf("runtime error: slice bounds out of range [%d:%d] with length %d", l, h, Len))
		}
		return Str{S: str.S[l:h]}
	}
	if l < 0 || h < l || h > m || m > int64(Cap) {
		in.goPanic(fmt.Sprintf("runtime error: slice bounds out of range [%d:%d:%d] with capacity %d", l, h, m, Cap))
	}
	if s, ok := x.(Slice); ok && s.Nil && l == 0 && h == 0 {
		return Slice{Nil: true}
	}
	return Slice{A: arr[:Cap][l:h:m]}
}

// ---- decisions ----

func (in *Interp) assume(t *smt.Term) {
	if t == in.tb.True {
		return
	}
	in.pc = append(in.pc, t)
	if in.live {
		in.sol.Assert(t)
		if debugAssume {
			if in.sol.Check() == smt.Unsat {
				_, e := in.sol.P.Emit(t)
				fmt.Fprintf(os.Stderr, "ASSUME-UNSAT after %s\n  stack: %s\n", e[:min(len(e), 300)], in.traceStack)
				panic(pathAbort{"assume made the path condition unsatisfiable"})
			}
		}
	}
	if t == in.tb.False {
		panic(pathAbort{"assumption is false"})
	}
}

// takeReplay consumes one decision of the prefix if any.
func (in *Interp) takeReplay(n int) (int, bool) {
	pos := len(in.log)
	if pos < len(in.prefix) {
		d := in.prefix[pos]
		if d.N != n {
			panic(inconclusive{fmt.Sprintf("non-deterministic replay: decision %d had %d alternatives, now %d", pos, d.N, n)})
		}
		return d.Chosen, true
	}
	return 0, false
}

func (in *Interp) goLive() {
	if !in.live && len(in.log) >= in.silent {
		in.live = true
	}
}

// decide forks over alternatives constrained by alts; exactly the feasible ones are explored.
func (in *Interp) decide(alts []*smt.Term, kind string) int {
	n := len(alts)
	pos := len(in.log)
	if k, ok := in.takeReplay(n); ok {
		d := in.prefix[pos]
		in.goLive()
		if d.Pushes {
			if in.live {
				in.sol.Push()
				in.sol.Assert(alts[k])
			}
			in.pc = append(in.pc, alts[k])
		}
		in.log = append(in.log, d)
		return k
	}
	in.goLive()
	if !in.live {
		panic("decide: fresh decision while not live")
	}
	if pin := in.cfg.PinDecisions; pin != nil {
		// pinned re-execution (replay of a recorded counterexample): take the recorded alternative, explore nothing else
		k := 0
		if pos < len(pin) {
			k = pin[pos]
		}
		if k < 0 || k >= n {
			panic(inconclusive{fmt.Sprintf("pinned decision %d out of range at %s", k, kind)})
		}
		if r := in.sol.Check(alts[k]); r == smt.Unsat {
			panic(pathAbort{"pinned alternative infeasible at " + kind})
		}
		in.sol.Push()
		in.sol.Assert(alts[k])
		in.pc = append(in.pc, alts[k])
		in.log = append(in.log, decision{N: n, Chosen: k, Pushes: true, Kind: kind})
		return k
	}
	// fresh decision: feasibility of each alternative
	var feas []int
	complementary := kind == "if" && n == 2
	for i, a := range alts {
		if a == in.tb.False {
			continue
		}
		if complementary && i == 1 && len(feas) == 0 {
			// the path condition is satisfiable and alts[0] is not: alts[1] must be
			feas = append(feas, 1)
			continue
		}
		r := smt.Sat
		if a != in.tb.True {
			// (an alternative that is literally true is feasible: the path condition is satisfiable by invariant)
			r = in.sol.Check(a)
			in.res.Queries++
		}
		switch r {
		case smt.Sat:
			feas = append(feas, i)
		case smt.Unknown:
			in.res.UnknownFeas++
			feas = append(feas, i) // never prune on doubt
		}
	}
	// cover obligation: the alternatives exhaust the path condition
	if !(kind == "if" && n == 2) {
		in.res.Obligations++
		r := smt.Unsat
		if neg := in.tb.Not(in.tb.Or(alts...)); neg != in.tb.False {
			r = in.sol.Check(neg)
			in.res.Queries++
		}
		if r != smt.Unsat {
			panic(inconclusive{fmt.Sprintf("cover obligation for %s not discharged (%s)", kind, r)})
		}
	}
	if len(feas) == 0 {
		panic(pathAbort{"no feasible alternative at " + kind})
	}
	d := decision{N: n, Chosen: feas[0], Pushes: len(feas) > 1, Kind: kind}
	if d.Pushes {
		for _, alt := range feas[1:] {
			p := make([]decision, pos+1)
			copy(p, in.log)
			p[pos] = decision{N: n, Chosen: alt, Pushes: true, Kind: kind}
			in.ex.pushWork(in, p)
		}
		in.sol.Push()
		in.sol.Assert(alts[d.Chosen])
		in.pc = append(in.pc, alts[d.Chosen])
	}
	in.log = append(in.log, d)
	in.res.Decisions++
	if d.Pushes {
		in.res.note("fork:" + kind)
	}
	return d.Chosen
}

// decideN is an unconstrained n-way fork (choices, schedules). It opens its own solver frame like a
// constrained fork does: the assertions that follow belong to this alternative only and must be popped
// when a sibling alternative is explored.
func (in *Interp) decideN(n int, kind string) int {
	if n == 1 {
		return 0
	}
	pos := len(in.log)
	if k, ok := in.takeReplay(n); ok {
		in.goLive()
		if in.live {
			in.sol.Push()
		}
		in.log = append(in.log, in.prefix[pos])
		return k
	}
	in.goLive()
	if pin := in.cfg.PinDecisions; pin != nil {
		k := 0
		if pos < len(pin) {
			k = pin[pos]
		}
		if k < 0 || k >= n {
			panic(inconclusive{fmt.Sprintf("pinned decision %d out of range at %s", k, kind)})
		}
		in.sol.Push()
		in.log = append(in.log, decision{N: n, Chosen: k, Kind: kind, Pushes: true})
		return k
	}
	for alt := n - 1; alt >= 1; alt-- {
		p := make([]decision, pos+1)
		copy(p, in.log)
		p[pos] = decision{N: n, Chosen: alt, Kind: kind, Pushes: true}
		in.ex.pushWork(in, p)
	}
	in.sol.Push()
	in.log = append(in.log, decision{N: n, Chosen: 0, Kind: kind, Pushes: true})
	in.res.Decisions++
	if strings.HasPrefix(kind, "sched:") {
		in.res.note("fork:" + kind)
	}
	return 0
}

// fresh returns a fresh variable with a deterministic per-path name.
func (in *Interp) fresh(kind string, s smt.Sort) *smt.Term {
	k := in.names[kind]
	in.names[kind] = k + 1
	suffix := ""
	switch s.K {
	case smt.KBV:
		suffix = fmt.Sprintf("_b%d", s.W)
	case smt.KBool:
		suffix = "_B"
	case smt.KStr:
		suffix = "_S"
	case smt.KInt:
		suffix = "_I"
	}
	return in.tb.Var(fmt.Sprintf("%s_%d%s", kind, k, suffix), s)
}

func (in *Interp) input(t *smt.Term) {
	if !in.inputSeen[t] {
		in.inputSeen[t] = true
		in.inputs = append(in.inputs, t)
	}
}

// ---- builtins ----

func (in *Interp) callBuiltin(caller *frame, fn *ssa.Builtin, args []Value) Value {
	switch fn.Name() {
	case "append":
		if len(args) == 1 {
			return args[0]
		}
		dst := args[0].(Slice)
		var src []Value
		switch s := args[1].(type) {
		case Str:
			if !s.IsConc() {
				panic(inconclusive{"append(bytes, symbolic string)"})
			}
			for i := 0; i < len(s.S); i++ {
				src = append(src, mkBV(8, uint64(s.S[i])))
			}
		case Slice:
			src = s.A
		}
		if len(src) == 0 {
			return dst
		}
		in.memAccess(&src[0], false)
		cp := make([]Value, len(src))
		for i, v := range src {
			cp[i] = copyVal(v)
		}
		return Slice{A: append(dst.A, cp...)}

	case "copy":
		dst := args[0].(Slice)
		switch s := args[1].(type) {
		case Str:
			if !s.IsConc() {
				panic(inconclusive{"copy(bytes, symbolic string)"})
			}
			n := min(len(dst.A), len(s.S))
			for i := 0; i < n; i++ {
				dst.A[i] = mkBV(8, uint64(s.S[i]))
			}
			return mkBV(64, uint64(n))
		case Slice:
			n := min(len(dst.A), len(s.A))
			if n > 0 {
				in.memAccess(&s.A[0], false)
				in.memAccess(&dst.A[0], true)
			}
			tmp := make([]Value, n)
			for i := 0; i < n; i++ {
				tmp[i] = copyVal(s.A[i])
			}
			for i := 0; i < n; i++ {
				storeInto(&dst.A[i], tmp[i])
			}
			return mkBV(64, uint64(n))
		}

	case "close":
		in.chanClose(args[0].(*Chan))
		return nil

	case "delete":
		m := args[0].(*Map)
		if m != nil {
			in.mapDelete(m, args[1])
		}
		return nil

	case "clear":
		switch x := args[0].(type) {
		case *Map:
			if x != nil {
				x.Entries, x.N = nil, 0
			}
		case Slice:
			if len(x.A) > 0 {
				panic(inconclusive{"clear(slice)"})
			}
		}
		return nil

	case "print", "println":
		return nil

	case "len":
		switch x := args[0].(type) {
		case Str:
			return in.strLen(x)
		case Array:
			return mkBV(64, uint64(len(x)))
		case *Value:
			return mkBV(64, uint64(len((*x).(Array))))
		case Slice:
			return mkBV(64, uint64(len(x.A)))
		case *Map:
			if x == nil {
				return mkBV(64, 0)
			}
			return mkBV(64, uint64(x.N))
		case *Chan:
			if x == nil {
				return mkBV(64, 0)
			}
			return mkBV(64, uint64(len(x.Buf)))
		}
		panic(fmt.Sprintf("len: illegal operand: %T", args[0]))

	case "cap":
		switch x := args[0].(type) {
		case Array:
			return mkBV(64, uint64(len(x)))
		case *Value:
			return mkBV(64, uint64(len((*x).(Array))))
		case Slice:
			return mkBV(64, uint64(cap(x.A)))
		case *Chan:
			if x == nil {
				return mkBV(64, 0)
			}
			return mkBV(64, uint64(x.Cap))
		}
		panic(fmt.Sprintf("cap: illegal operand: %T", args[0]))

	case "min", "max":
		x := args[0]
		for _, y := range args[1:] {
			op := token.LSS
			if fn.Name() == "max" {
				op = token.GTR
			}
			var t types.Type = types.Typ[types.Int64]
			if caller != nil {
				// signedness from the builtin's instantiated signature
				if sig, ok := fn.Type().(*types.Signature); ok && sig.Params().Len() > 0 {
					t = sig.Params().At(0).Type()
				}
			}
			c := in.binop(op, t, y, x).(Bool)
			if c.T == nil {
				if c.C {
					x = y
				}
			} else {
				x = in.iteVal(c, y, x)
			}
		}
		return x

	case "panic":
		panic(targetPanic{args[0]})

	case "recover":
		return in.doRecover(caller)

	case "ssa:wrapnilchk":
		recv := args[0]
		if p, ok := recv.(*Value); ok && p == nil {
			in.goPanic(fmt.Sprintf("value method %v.%v called using nil pointer", args[1], args[2]))
		}
		return recv

	case "ssa:deferstack":
		return &caller.defers
	}
	panic("unknown built-in: " + fn.Name())
}

func (in *Interp) strLen(s Str) BV {
	if s.IsConc() {
		return mkBV(64, uint64(len(s.S)))
	}
	// sum of literal lengths + symbolic parts: only string-variables with a fixed known length are supported
	total := 0
	for _, g := range s.Segs {
		switch {
		case g.T != nil:
			n, ok := in.m.strLens[g.T]
			if !ok {
				panic(inconclusive{"len of symbolic string of unknown length"})
			}
			total += n
		case g.Itoa != nil:
			panic(inconclusive{"len of a string containing a formatted symbolic integer"})
		case g.B64 != nil:
			if g.Enc == "std" || g.Enc == "url" {
				total += (len(g.B64) + 2) / 3 * 4
			} else {
				total += (len(g.B64)*8 + 5) / 6
			}
		default:
			total += len(g.Lit)
		}
	}
	return mkBV(64, uint64(total))
}

// iteVal builds ite(c, a, b) over scalar values.
func (in *Interp) iteVal(c Bool, a, b Value) Value {
	if c.T == nil {
		if c.C {
			return a
		}
		return b
	}
	switch a := a.(type) {
	case BV:
		return in.mkBVT(in.tb.Ite(c.T, in.bvTerm(a), in.bvTerm(b.(BV))))
	case Bool:
		return in.mkBoolT(in.tb.Ite(c.T, in.boolTerm(a), in.boolTerm(b.(Bool))))
	}
	panic(inconclusive{fmt.Sprintf("ite over %T", a)})
}

func (in *Interp) doRecover(caller *frame) Value {
	// recover() is called by a deferred function (caller) whose own caller is panicking
	if caller != nil && !caller.panicking && caller.caller != nil && caller.caller.panicking {
		caller.caller.panicking = false
		p := caller.caller.panicVal
		caller.caller.panicVal = nil
		if tp, ok := p.(targetPanic); ok {
			if tp.v == nil {
				return Iface{}
			}
			if i, ok := tp.v.(Iface); ok {
				return i
			}
			return Iface{T: types.Typ[types.String], V: tp.v}
		}
		panic(p)
	}
	return Iface{}
}

// ---- lookups ----

func (in *Interp) lookup(instr *ssa.Lookup, x, idx Value) Value {
	switch x := x.(type) {
	case *Map:
		var v Value
		ok := false
		if x != nil {
			v, ok = in.mapGet(x, idx)
		}
		if !ok {
			v = in.zero(instr.X.Type().Underlying().(*types.Map).Elem())
		} else {
			v = copyVal(v)
		}
		if instr.CommaOk {
			return Tuple{v, Bool{C: ok}}
		}
		return v
	case Str:
		if !x.IsConc() {
			panic(inconclusive{"index into symbolic string"})
		}
		return mkBV(8, uint64(x.S[in.index(idx, len(x.S))]))
	}
	panic(fmt.Sprintf("unexpected x type in Lookup: %T", x))
}

// position of an instruction for messages
func (in *Interp) posOf(fr *frame) string {
	if fr == nil {
		return ""
	}
	return fr.fn.String()
}

func stackOf(fr *frame) string {
	var sb strings.Builder
	for f := fr; f != nil; f = f.caller {
		sb.WriteString(f.fn.String())
		sb.WriteString(" <- ")
	}
	return sb.String()
}

var _ = debug.Stack

// allowedFuncs are single functions of otherwise un-interpreted packages that are safe to run from source.
var allowedFuncs = map[string]bool{
	"(*fmt.wrapError).Unwrap": true, "(*fmt.wrapError).Error": true,
	"(*fmt.wrapErrors).Unwrap": true, "(*fmt.wrapErrors).Error": true,
}

var noInitPkgs = map[string]bool{
	"github.com/godaddy/asherah/server/go/api": true,
}

var traceCalls = os.Getenv("GOSX_TRACE_CALLS") != ""
var debugAssume = os.Getenv("GOSX_CHECK_ASSUME") != ""
