package sx

import "math"

// math functions on concrete floats are evaluated natively (they only occur in cache sizing arithmetic).
func init() {
	f1 := func(name string, f func(float64) float64) {
		intrinsics["math."+name] = func(in *Interp, fr *frame, a []Value) Value {
			return Float{W: 64, F: f(a[0].(Float).F)}
		}
	}
	f1("Log", math.Log)
	f1("Log2", math.Log2)
	f1("Log10", math.Log10)
	f1("Log1p", math.Log1p)
	f1("Exp", math.Exp)
	f1("Ceil", math.Ceil)
	f1("Floor", math.Floor)
	f1("Sqrt", math.Sqrt)
	f1("Abs", math.Abs)
	f1("Round", math.Round)
	f1("Trunc", math.Trunc)
	intrinsics["math.Pow"] = func(in *Interp, fr *frame, a []Value) Value {
		return Float{W: 64, F: math.Pow(a[0].(Float).F, a[1].(Float).F)}
	}
	intrinsics["math.Max"] = func(in *Interp, fr *frame, a []Value) Value {
		return Float{W: 64, F: math.Max(a[0].(Float).F, a[1].(Float).F)}
	}
	intrinsics["math.Min"] = func(in *Interp, fr *frame, a []Value) Value {
		return Float{W: 64, F: math.Min(a[0].(Float).F, a[1].(Float).F)}
	}
	intrinsics["math.Float64bits"] = func(in *Interp, fr *frame, a []Value) Value {
		return mkBV(64, math.Float64bits(a[0].(Float).F))
	}
	intrinsics["math.Float32bits"] = func(in *Interp, fr *frame, a []Value) Value {
		return mkBV(32, uint64(math.Float32bits(float32(a[0].(Float).F))))
	}
	intrinsics["math.Float64frombits"] = func(in *Interp, fr *frame, a []Value) Value {
		b := a[0].(BV)
		if b.T != nil {
			panic(inconclusive{"Float64frombits of a symbolic word"})
		}
		return Float{W: 64, F: math.Float64frombits(b.C)}
	}
	intrinsics["math.IsNaN"] = func(in *Interp, fr *frame, a []Value) Value { return Bool{C: math.IsNaN(a[0].(Float).F)} }
	intrinsics["math.IsInf"] = func(in *Interp, fr *frame, a []Value) Value {
		return Bool{C: math.IsInf(a[0].(Float).F, int(a[1].(BV).Signed()))}
	}
	intrinsics["math.Inf"] = func(in *Interp, fr *frame, a []Value) Value {
		return Float{W: 64, F: math.Inf(int(a[0].(BV).Signed()))}
	}
}
