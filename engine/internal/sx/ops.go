package sx

import (
	"fmt"
	"go/constant"
	"go/token"
	"go/types"
	"math"
	"strconv"
	"strings"
	"unicode/utf8"

	"golang.org/x/tools/go/ssa"

	"verifh/internal/smt"
)

func (in *Interp) constValue(c *ssa.Const) Value {
	if c.Value == nil {
		return in.zero(c.Type())
	}
	t := c.Type()
	if tp, ok := t.(*types.TypeParam); ok {
		_ = tp
		panic(inconclusive{"constant of type-parameter type"})
	}
	if b, ok := t.Underlying().(*types.Basic); ok {
		switch {
		case b.Info()&types.IsBoolean != 0:
			return Bool{C: constant.BoolVal(c.Value)}
		case b.Info()&types.IsString != 0:
			if c.Value.Kind() == constant.String {
				return Str{S: constant.StringVal(c.Value)}
			}
			return Str{S: string(rune(c.Int64()))}
		case b.Info()&types.IsInteger != 0:
			w, signed, _ := intWidth(t)
			if signed {
				return mkBV(w, uint64(c.Int64()))
			}
			return mkBV(w, c.Uint64())
		case b.Info()&types.IsFloat != 0:
			w := 64
			if b.Kind() == types.Float32 {
				w = 32
			}
			return Float{W: uint8(w), F: c.Float64()}
		case b.Info()&types.IsComplex != 0:
			return Complex{C: c.Complex128()}
		}
	}
	panic(fmt.Sprintf("constValue: %s", c))
}

func u2b(b bool) uint64 {
	if b {
		return 1
	}
	return 0
}

// binop implements all arithmetic, bitwise and comparison operators.
func (in *Interp) binop(op token.Token, t types.Type, x, y Value) Value {
	switch op {
	case token.EQL:
		return in.equals(t, x, y)
	case token.NEQ:
		return in.notB(in.equals(t, x, y))
	}
	switch x := x.(type) {
	case BV:
		yb := y.(BV)
		_, signed, ok := intWidth(t)
		if !ok {
			signed = true
		}
		return in.bvBinop(op, signed, x, yb, t)
	case Float:
		yf := y.(Float)
		switch op {
		case token.ADD:
			return in.roundF(x.W, x.F+yf.F)
		case token.SUB:
			return in.roundF(x.W, x.F-yf.F)
		case token.MUL:
			return in.roundF(x.W, x.F*yf.F)
		case token.QUO:
			return in.roundF(x.W, x.F/yf.F)
		case token.LSS:
			return Bool{C: x.F < yf.F}
		case token.LEQ:
			return Bool{C: x.F <= yf.F}
		case token.GTR:
			return Bool{C: x.F > yf.F}
		case token.GEQ:
			return Bool{C: x.F >= yf.F}
		}
	case Str:
		ys := y.(Str)
		switch op {
		case token.ADD:
			return strConcat(x, ys)
		case token.LSS, token.LEQ, token.GTR, token.GEQ:
			if x.IsConc() && ys.IsConc() {
				switch op {
				case token.LSS:
					return Bool{C: x.S < ys.S}
				case token.LEQ:
					return Bool{C: x.S <= ys.S}
				case token.GTR:
					return Bool{C: x.S > ys.S}
				case token.GEQ:
					return Bool{C: x.S >= ys.S}
				}
			}
			panic(inconclusive{"ordering comparison of symbolic strings"})
		}
	case Bool:
		yb := y.(Bool)
		switch op {
		case token.LAND, token.AND:
			return in.mkBoolT(in.tb.And(in.boolTerm(x), in.boolTerm(yb)))
		case token.LOR, token.OR:
			return in.mkBoolT(in.tb.Or(in.boolTerm(x), in.boolTerm(yb)))
		}
	}
	panic(fmt.Sprintf("invalid binary op: %T %s %T", x, op, y))
}

func (in *Interp) roundF(w uint8, f float64) Float {
	if w == 32 {
		f = float64(float32(f))
	}
	return Float{W: w, F: f}
}

func (in *Interp) notB(b Value) Bool {
	bb := b.(Bool)
	if bb.T == nil {
		return Bool{C: !bb.C}
	}
	return in.mkBoolT(in.tb.Not(bb.T))
}

func (in *Interp) bvBinop(op token.Token, signed bool, x, y BV, t types.Type) Value {
	w := int(x.W)
	// shifts: y may have a different width
	if op == token.SHL || op == token.SHR {
		return in.shift(op, signed, x, y)
	}
	if x.W != y.W {
		panic(fmt.Sprintf("bvBinop %s: width mismatch %d vs %d", op, x.W, y.W))
	}
	if x.T == nil && y.T == nil {
		a, b := x.C, y.C
		sa, sb := x.Signed(), y.Signed()
		switch op {
		case token.ADD:
			return mkBV(w, a+b)
		case token.SUB:
			return mkBV(w, a-b)
		case token.MUL:
			return mkBV(w, a*b)
		case token.QUO:
			if b == 0 {
				in.goPanic("runtime error: integer divide by zero")
			}
			if signed {
				if sb == -1 {
					return mkBV(w, uint64(-sa))
				}
				return mkBV(w, uint64(sa/sb))
			}
			return mkBV(w, a/b)
		case token.REM:
			if b == 0 {
				in.goPanic("runtime error: integer divide by zero")
			}
			if signed {
				if sb == -1 {
					return mkBV(w, 0)
				}
				return mkBV(w, uint64(sa%sb))
			}
			return mkBV(w, a%b)
		case token.AND:
			return mkBV(w, a&b)
		case token.OR:
			return mkBV(w, a|b)
		case token.XOR:
			return mkBV(w, a^b)
		case token.AND_NOT:
			return mkBV(w, a&^b)
		case token.LSS:
			if signed {
				return Bool{C: sa < sb}
			}
			return Bool{C: a < b}
		case token.LEQ:
			if signed {
				return Bool{C: sa <= sb}
			}
			return Bool{C: a <= b}
		case token.GTR:
			if signed {
				return Bool{C: sa > sb}
			}
			return Bool{C: a > b}
		case token.GEQ:
			if signed {
				return Bool{C: sa >= sb}
			}
			return Bool{C: a >= b}
		}
		panic(fmt.Sprintf("bvBinop: unexpected op %s", op))
	}
	if signed && (x.I != nil || y.I != nil) {
		if r, ok := in.twinBinop(op, x, y); ok {
			return r
		}
	}
	a, b := in.bvTerm(x), in.bvTerm(y)
	tb := in.tb
	switch op {
	case token.ADD:
		return in.mkBVT(tb.BVBin("bvadd", a, b))
	case token.SUB:
		return in.mkBVT(tb.BVBin("bvsub", a, b))
	case token.MUL:
		return in.mkBVT(tb.BVBin("bvmul", a, b))
	case token.QUO, token.REM:
		// division-by-zero check
		if y.T != nil {
			z := tb.Eq(b, tb.BV(w, 0))
			if in.decide([]*smt.Term{tb.Not(z), z}, "divzero") == 1 {
				in.goPanic("runtime error: integer divide by zero")
			}
		} else if y.C == 0 {
			in.goPanic("runtime error: integer divide by zero")
		}
		var o string
		switch {
		case op == token.QUO && signed:
			o = "bvsdiv"
		case op == token.QUO:
			o = "bvudiv"
		case signed:
			o = "bvsrem"
		default:
			o = "bvurem"
		}
		return in.mkBVT(tb.BVBin(o, a, b))
	case token.AND:
		return in.mkBVT(tb.BVBin("bvand", a, b))
	case token.OR:
		return in.mkBVT(tb.BVBin("bvor", a, b))
	case token.XOR:
		return in.mkBVT(tb.BVBin("bvxor", a, b))
	case token.AND_NOT:
		return in.mkBVT(tb.BVBin("bvand", a, tb.BVNot(b)))
	case token.LSS:
		if signed {
			return in.mkBoolT(tb.BVCmp("bvslt", a, b))
		}
		return in.mkBoolT(tb.BVCmp("bvult", a, b))
	case token.LEQ:
		if signed {
			return in.mkBoolT(tb.BVCmp("bvsle", a, b))
		}
		return in.mkBoolT(tb.BVCmp("bvule", a, b))
	case token.GTR:
		if signed {
			return in.mkBoolT(tb.BVCmp("bvsgt", a, b))
		}
		return in.mkBoolT(tb.BVCmp("bvugt", a, b))
	case token.GEQ:
		if signed {
			return in.mkBoolT(tb.BVCmp("bvsge", a, b))
		}
		return in.mkBoolT(tb.BVCmp("bvuge", a, b))
	}
	panic(fmt.Sprintf("bvBinop: unexpected op %s", op))
}

func (in *Interp) shift(op token.Token, signed bool, x, y BV) Value {
	w := int(x.W)
	if y.T == nil {
		n := y.C
		if x.T == nil {
			switch {
			case op == token.SHL:
				if n >= uint64(w) {
					return mkBV(w, 0)
				}
				return mkBV(w, x.C<<n)
			case signed:
				if n >= uint64(w) {
					n = uint64(w - 1)
				}
				return mkBV(w, uint64(x.Signed()>>n))
			default:
				if n >= uint64(w) {
					return mkBV(w, 0)
				}
				return mkBV(w, x.C>>n)
			}
		}
		if n >= uint64(w) {
			if op == token.SHR && signed {
				n = uint64(w - 1)
			} else {
				return mkBV(w, 0)
			}
		}
		o := "bvshl"
		if op == token.SHR {
			o = "bvlshr"
			if signed {
				o = "bvashr"
			}
		}
		return in.mkBVT(in.tb.BVBin(o, x.T, in.tb.BV(w, n)))
	}
	// symbolic shift count: widen/narrow count to w (saturating semantics of SMT match Go for >= w)
	cnt := in.bvTerm(y)
	if int(y.W) < w {
		cnt = in.tb.ZExt(w, cnt)
	} else if int(y.W) > w {
		big := in.tb.BVCmp("bvuge", cnt, in.tb.BV(int(y.W), uint64(w)))
		cnt = in.tb.Ite(big, in.tb.BV(w, uint64(w)), in.tb.Extract(w-1, 0, cnt))
	}
	o := "bvshl"
	if op == token.SHR {
		o = "bvlshr"
		if signed {
			o = "bvashr"
		}
	}
	return in.mkBVT(in.tb.BVBin(o, in.bvTerm(x), cnt))
}

func (in *Interp) unop(instr *ssa.UnOp, x Value, fr *frame) Value {
	switch instr.Op {
	case token.ARROW:
		return in.chanRecv(x.(*Chan), instr.CommaOk, instr.X.Type().Underlying().(*types.Chan).Elem())
	case token.SUB:
		switch x := x.(type) {
		case BV:
			if x.T == nil {
				return mkBV(int(x.W), -x.C)
			}
			if x.I != nil && x.IB <= 62 {
				return in.mkInt(in.tb.IntBin("-", in.tb.IntLit(0), x.I), int(x.IB))
			}
			return in.mkBVT(in.tb.BVNeg(x.T))
		case Float:
			return Float{W: x.W, F: -x.F}
		}
	case token.MUL:
		p := x.(*Value)
		if p == nil {
			in.goPanic("runtime error: invalid memory address or nil pointer dereference")
		}
		in.memAccess(p, false)
		return copyVal(*p)
	case token.NOT:
		return in.notB(x)
	case token.XOR:
		b := x.(BV)
		if b.T == nil {
			return mkBV(int(b.W), ^b.C)
		}
		return in.mkBVT(in.tb.BVNot(b.T))
	}
	panic(fmt.Sprintf("invalid unary op %s %T", instr.Op, x))
}

// strEq decides equality of two strings, structurally where possible.
func (in *Interp) strEq(a, b Str) Bool {
	if a.IsConc() && b.IsConc() {
		return Bool{C: a.S == b.S}
	}
	sa, sb := append([]Seg{}, a.segs()...), append([]Seg{}, b.segs()...)
	// strip common prefix
	for len(sa) > 0 && len(sb) > 0 {
		x, y := sa[0], sb[0]
		if x.isLit() && y.isLit() {
			n := 0
			for n < len(x.Lit) && n < len(y.Lit) && x.Lit[n] == y.Lit[n] {
				n++
			}
			if n < len(x.Lit) && n < len(y.Lit) {
				return Bool{C: false}
			}
			if n == len(x.Lit) && n == len(y.Lit) {
				sa, sb = sa[1:], sb[1:]
			} else if n == len(x.Lit) {
				sa = sa[1:]
				sb[0] = Seg{Lit: y.Lit[n:]}
			} else {
				sb = sb[1:]
				sa[0] = Seg{Lit: x.Lit[n:]}
			}
			continue
		}
		if x.T != nil && x.T == y.T || x.Itoa != nil && x.Itoa == y.Itoa || sameB64(x, y) {
			sa, sb = sa[1:], sb[1:]
			continue
		}
		break
	}
	// strip common suffix
	for len(sa) > 0 && len(sb) > 0 {
		x, y := sa[len(sa)-1], sb[len(sb)-1]
		if x.isLit() && y.isLit() {
			n := 0
			for n < len(x.Lit) && n < len(y.Lit) && x.Lit[len(x.Lit)-1-n] == y.Lit[len(y.Lit)-1-n] {
				n++
			}
			if n < len(x.Lit) && n < len(y.Lit) {
				return Bool{C: false}
			}
			if n == len(x.Lit) && n == len(y.Lit) {
				sa, sb = sa[:len(sa)-1], sb[:len(sb)-1]
			} else if n == len(x.Lit) {
				sa = sa[:len(sa)-1]
				sb[len(sb)-1] = Seg{Lit: y.Lit[:len(y.Lit)-n]}
			} else {
				sb = sb[:len(sb)-1]
				sa[len(sa)-1] = Seg{Lit: x.Lit[:len(x.Lit)-n]}
			}
			continue
		}
		if x.T != nil && x.T == y.T || x.Itoa != nil && x.Itoa == y.Itoa || sameB64(x, y) {
			sa, sb = sa[:len(sa)-1], sb[:len(sb)-1]
			continue
		}
		break
	}
	if len(sa) == 0 && len(sb) == 0 {
		return Bool{C: true}
	}
	// character-class mismatch at either end: itoa renders as -?[0-9]+
	if len(sa) > 0 && len(sb) > 0 {
		isLit := func(g Seg) bool { return g.isLit() }
		headClash := func(x, y Seg) bool {
			return x.Itoa != nil && isLit(y) && len(y.Lit) > 0 && !(y.Lit[0] == '-' || (y.Lit[0] >= '0' && y.Lit[0] <= '9'))
		}
		tailClash := func(x, y Seg) bool {
			return x.Itoa != nil && isLit(y) && len(y.Lit) > 0 && !(y.Lit[len(y.Lit)-1] >= '0' && y.Lit[len(y.Lit)-1] <= '9')
		}
		if headClash(sa[0], sb[0]) || headClash(sb[0], sa[0]) || tailClash(sa[len(sa)-1], sb[len(sb)-1]) || tailClash(sb[len(sb)-1], sa[len(sa)-1]) {
			return Bool{C: false}
		}
	}
	// base64(x) == base64(y): same encoding <=> same bytes; padded vs unpadded differ unless no padding is needed
	if len(sa) == 1 && len(sb) == 1 && sa[0].B64 != nil && sb[0].B64 != nil {
		x, y := sa[0], sb[0]
		if len(x.B64) != len(y.B64) {
			return Bool{C: false}
		}
		if x.Enc != y.Enc {
			samePad := (x.Enc == "std" || x.Enc == "url") == (y.Enc == "std" || y.Enc == "url")
			sameAlpha := (x.Enc == "std" || x.Enc == "raw") == (y.Enc == "std" || y.Enc == "raw")
			if !sameAlpha {
				panic(inconclusive{"comparison of base64 texts in different alphabets"})
			}
			if !samePad && len(x.B64)%3 != 0 {
				return Bool{C: false}
			}
		}
		return in.mkBoolT(in.eqBytes(x.B64, y.B64))
	}
	for _, g := range append(append([]Seg{}, sa...), sb...) {
		if g.B64 != nil && len(sa) > 0 && len(sb) > 0 {
			panic(inconclusive{"comparison of a base64 text of symbolic bytes with other text"})
		}
	}
	// itoa(x) == itoa(y)  <=>  x == y
	if len(sa) == 1 && len(sb) == 1 && sa[0].Itoa != nil && sb[0].Itoa != nil {
		return in.eqBV(sa[0].ItoaV, sb[0].ItoaV)
	}
	// itoa(x) == "" is false; itoa(x) == "123" <=> x == 123 when canonical decimal
	if len(sa) == 0 || len(sb) == 0 {
		rest := sa
		if len(rest) == 0 {
			rest = sb
		}
		onlyItoaOrLit := true
		for _, g := range rest {
			if g.T != nil {
				onlyItoaOrLit = false
			}
		}
		if onlyItoaOrLit {
			return Bool{C: false} // non-empty (itoa renders at least one digit; literals are non-empty)
		}
	}
	if len(sa) == 1 && len(sb) == 1 {
		lit, it := sa[0], sb[0]
		if lit.Itoa != nil {
			lit, it = it, lit
		}
		if it.Itoa != nil && lit.isLit() {
			n, err := strconv.ParseInt(lit.Lit, 10, 64)
			if err != nil || strconv.FormatInt(n, 10) != lit.Lit {
				return Bool{C: false}
			}
			return in.eqBV(it.ItoaV, mkBV(64, uint64(n)))
		}
	}
	// general case: string theory
	return in.mkBoolT(in.tb.Eq(in.strTerm(Str{Segs: sa}), in.strTerm(Str{Segs: sb})))
}

func sameB64(x, y Seg) bool {
	if x.B64 == nil || y.B64 == nil || x.Enc != y.Enc || len(x.B64) != len(y.B64) {
		return false
	}
	for i := range x.B64 {
		if x.B64[i].T != y.B64[i].T || x.B64[i].T == nil && x.B64[i].C != y.B64[i].C {
			return false
		}
	}
	return true
}

// strTerm renders a string as an SMT String term.
func (in *Interp) strTerm(s Str) *smt.Term {
	if s.IsConc() {
		return in.tb.StrLit(s.S)
	}
	var parts []*smt.Term
	for _, g := range s.Segs {
		switch {
		case g.T != nil:
			parts = append(parts, g.T)
		case g.B64 != nil:
			panic(inconclusive{"base64 text of symbolic bytes in a string-theory term"})
		case g.Itoa != nil:
			// signed decimal: ite(x<0, "-"+from_int(-x), from_int(x)) via bv2nat
			neg := in.tb.BVCmp("bvslt", g.Itoa, in.tb.BV(64, 0))
			abs := in.tb.Ite(neg, in.tb.BVNeg(g.Itoa), g.Itoa)
			d := in.tb.StrFromInt(in.tb.BV2Nat(abs))
			parts = append(parts, in.tb.Ite(neg, in.tb.StrConcat(in.tb.StrLit("-"), d), d))
		default:
			parts = append(parts, in.tb.StrLit(g.Lit))
		}
	}
	if len(parts) == 0 {
		return in.tb.StrLit("")
	}
	return in.tb.StrConcat(parts...)
}

// equals implements == on every comparable kind; result may be symbolic.
func (in *Interp) equals(t types.Type, x, y Value) Bool {
	switch x := x.(type) {
	case BV:
		return in.eqBV(x, y.(BV))
	case Bool:
		yb := y.(Bool)
		if x.T == nil && yb.T == nil {
			return Bool{C: x.C == yb.C}
		}
		return in.mkBoolT(in.tb.Eq(in.boolTerm(x), in.boolTerm(yb)))
	case Float:
		return Bool{C: x.F == y.(Float).F}
	case Complex:
		return Bool{C: x.C == y.(Complex).C}
	case Str:
		return in.strEq(x, y.(Str))
	case *Value:
		return Bool{C: x == y.(*Value)}
	case *Chan:
		return Bool{C: x == y.(*Chan)}
	case *Map:
		// only comparable with nil
		ym, _ := y.(*Map)
		return Bool{C: (x == nil) == (ym == nil)}
	case UnsafePtr:
		return Bool{C: x.P == y.(UnsafePtr).P}
	case *Obj:
		yo, _ := y.(*Obj)
		return Bool{C: x == yo}
	case Slice:
		ys := y.(Slice)
		return Bool{C: x.Nil == ys.Nil} // slices compare only with nil
	case *ssa.Function, *Closure, *ssa.Builtin, nil:
		return Bool{C: isNilFunc(x) == isNilFunc(y)}
	case TimeV:
		yt := y.(TimeV)
		if x.Zero || yt.Zero {
			return Bool{C: x.Zero == yt.Zero}
		}
		return in.andB(in.equals(nil, x.Sec, yt.Sec), in.equals(nil, x.Nsec, yt.Nsec))
	case Struct:
		ys := y.(Struct)
		var st *types.Struct
		if t != nil {
			st, _ = t.Underlying().(*types.Struct)
		}
		res := Bool{C: true}
		for i := range x {
			var ft types.Type
			if st != nil {
				if st.Field(i).Name() == "_" {
					continue
				}
				ft = st.Field(i).Type()
			}
			res = in.andB(res, in.equals(ft, x[i], ys[i]))
			if res.T == nil && !res.C {
				return res
			}
		}
		return res
	case Array:
		ya := y.(Array)
		var et types.Type
		if t != nil {
			et = t.Underlying().(*types.Array).Elem()
		}
		res := Bool{C: true}
		for i := range x {
			res = in.andB(res, in.equals(et, x[i], ya[i]))
			if res.T == nil && !res.C {
				return res
			}
		}
		return res
	case Iface:
		yi := y.(Iface)
		if x.T == nil || yi.T == nil {
			return Bool{C: x.T == nil && yi.T == nil}
		}
		if !types.Identical(x.T, yi.T) {
			return Bool{C: false}
		}
		if !types.Comparable(x.T) {
			in.goPanic("runtime error: comparing uncomparable type " + x.T.String())
		}
		return in.equals(x.T, x.V, yi.V)
	}
	panic(fmt.Sprintf("equals: unexpected %T vs %T", x, y))
}

func isNilFunc(v Value) bool {
	switch v := v.(type) {
	case nil:
		return true
	case *ssa.Function:
		return v == nil
	case *Closure:
		return v == nil
	case *ssa.Builtin:
		return v == nil
	}
	return false
}

func (in *Interp) andB(a, b Bool) Bool {
	if a.T == nil {
		if !a.C {
			return a
		}
		return b
	}
	if b.T == nil {
		if !b.C {
			return b
		}
		return a
	}
	return in.mkBoolT(in.tb.And(a.T, b.T))
}

func (in *Interp) orB(a, b Bool) Bool {
	if a.T == nil {
		if a.C {
			return a
		}
		return b
	}
	if b.T == nil {
		if b.C {
			return b
		}
		return a
	}
	return in.mkBoolT(in.tb.Or(a.T, b.T))
}

// conv implements ssa.Convert.
func (in *Interp) conv(tDst, tSrc types.Type, x Value) Value {
	utSrc := tSrc.Underlying()
	utDst := tDst.Underlying()
	switch utSrc := utSrc.(type) {
	case *types.Pointer:
		if b, ok := utDst.(*types.Basic); ok && b.Kind() == types.UnsafePointer {
			return UnsafePtr{P: x.(*Value)}
		}
		return x
	case *types.Slice:
		if b, ok := utDst.(*types.Basic); ok && b.Kind() == types.String {
			s := x.(Slice)
			if eb, ok := utSrc.Elem().Underlying().(*types.Basic); ok && eb.Kind() == types.Byte {
				if str, ok := in.strOfByteToken(s.A); ok {
					return str
				}
				buf := make([]byte, len(s.A))
				for i, e := range s.A {
					b, isBV := e.(BV)
					if !isBV {
						panic(inconclusive{"string(bytes) over part of a symbolic-string token"})
					}
					if b.T != nil {
						panic(inconclusive{"string(bytes) with symbolic bytes"})
					}
					buf[i] = byte(b.C)
				}
				return Str{S: string(buf)}
			}
			var sb strings.Builder
			for _, e := range s.A {
				sb.WriteRune(rune(e.(BV).Signed()))
			}
			return Str{S: sb.String()}
		}
		return x
	case *types.Basic:
		if utSrc.Kind() == types.UnsafePointer {
			if _, ok := utDst.(*types.Pointer); ok {
				return x.(UnsafePtr).P
			}
			return x
		}
		if s, ok := x.(Str); ok {
			switch d := utDst.(type) {
			case *types.Slice:
				if !s.IsConc() {
					if d.Elem().Underlying().(*types.Basic).Kind() != types.Byte {
						panic(inconclusive{"[]rune(symbolic string)"})
					}
					return Slice{A: in.byteTokenOfStr(s)}
				}
				if d.Elem().Underlying().(*types.Basic).Kind() == types.Byte {
					out := make([]Value, len(s.S))
					for i := 0; i < len(s.S); i++ {
						out[i] = mkBV(8, uint64(s.S[i]))
					}
					return Slice{A: out}
				}
				var out []Value
				for _, r := range s.S {
					out = append(out, mkBV(32, uint64(r)))
				}
				return Slice{A: out}
			case *types.Basic:
				return s
			}
		}
		if bx, ok := x.(BV); ok {
			if d, ok := utDst.(*types.Basic); ok {
				if d.Kind() == types.String {
					if bx.T != nil {
						panic(inconclusive{"string(symbolic rune)"})
					}
					r := rune(bx.Signed())
					if !utf8.ValidRune(r) {
						r = utf8.RuneError
					}
					return Str{S: string(r)}
				}
				if d.Info()&types.IsFloat != 0 {
					if bx.T != nil {
						panic(inconclusive{"symbolic integer converted to float"})
					}
					_, signed, _ := intWidth(tSrc)
					w := uint8(64)
					if d.Kind() == types.Float32 {
						w = 32
					}
					if signed {
						return in.roundF(w, float64(bx.Signed()))
					}
					return in.roundF(w, float64(bx.C))
				}
				dw, _, ok := intWidth(tDst)
				if ok {
					_, ssigned, _ := intWidth(tSrc)
					return in.convInt(bx, ssigned, dw)
				}
				if d.Kind() == types.UnsafePointer {
					return UnsafePtr{}
				}
			}
		}
		if fx, ok := x.(Float); ok {
			d := utDst.(*types.Basic)
			if d.Info()&types.IsFloat != 0 {
				w := uint8(64)
				if d.Kind() == types.Float32 {
					w = 32
				}
				return in.roundF(w, fx.F)
			}
			dw, signed, ok := intWidth(tDst)
			if ok {
				f := math.Trunc(fx.F)
				if signed {
					return mkBV(dw, uint64(int64(f)))
				}
				return mkBV(dw, uint64(f))
			}
		}
		if _, ok := x.(Bool); ok {
			return x
		}
	case *types.Signature, *types.Struct, *types.Map, *types.Chan, *types.Array, *types.Interface:
		return x
	}
	panic(fmt.Sprintf("unsupported conversion: %s -> %s, dynamic type %T", tSrc, tDst, x))
}

func (in *Interp) convInt(x BV, srcSigned bool, dw int) BV {
	sw := int(x.W)
	if x.T == nil {
		if srcSigned {
			return mkBV(dw, uint64(x.Signed()))
		}
		return mkBV(dw, x.C)
	}
	switch {
	case dw == sw:
		return x
	case dw < sw:
		return in.mkBVT(in.tb.Extract(dw-1, 0, x.T))
	case srcSigned:
		return in.mkBVT(in.tb.SExt(dw, x.T))
	default:
		return in.mkBVT(in.tb.ZExt(dw, x.T))
	}
}

// twinBinop performs signed 64-bit +,-,*const and comparisons in integer arithmetic when both
// operands have exact integer twins and the result provably cannot wrap.
func (in *Interp) twinBinop(op token.Token, x, y BV) (Value, bool) {
	xi, xb, ok1 := in.intTwin(x)
	yi, yb, ok2 := in.intTwin(y)
	if !ok1 || !ok2 {
		return nil, false
	}
	tb := in.tb
	switch op {
	case token.ADD, token.SUB:
		bits := max(xb, yb) + 1
		if bits > 62 {
			return nil, false
		}
		o := "+"
		if op == token.SUB {
			o = "-"
		}
		return in.mkInt(tb.IntBin(o, xi, yi), bits), true
	case token.MUL:
		if x.T != nil && y.T != nil {
			return nil, false
		}
		bits := xb + yb
		if bits > 62 {
			return nil, false
		}
		return in.mkInt(tb.IntBin("*", xi, yi), bits), true
	case token.LSS:
		return in.mkBoolT(tb.IntCmp("<", xi, yi)), true
	case token.LEQ:
		return in.mkBoolT(tb.IntCmp("<=", xi, yi)), true
	case token.GTR:
		return in.mkBoolT(tb.IntCmp(">", xi, yi)), true
	case token.GEQ:
		return in.mkBoolT(tb.IntCmp(">=", xi, yi)), true
	}
	return nil, false
}

// eqBV is word equality using the integer twins when both sides have one.
func (in *Interp) eqBV(x, y BV) Bool {
	if x.T == nil && y.T == nil {
		return Bool{C: x.C == y.C}
	}
	if x.I != nil || y.I != nil {
		xi, _, ok1 := in.intTwin(x)
		yi, _, ok2 := in.intTwin(y)
		if ok1 && ok2 {
			return in.mkBoolT(in.tb.Eq(xi, yi))
		}
	}
	return in.mkBoolT(in.tb.Eq(in.bvTerm(x), in.bvTerm(y)))
}
