package sx

import (
	"fmt"
	"go/token"
	"go/types"
	"os"
	"sort"
	"strconv"
	"strings"

	"golang.org/x/tools/go/ssa"

	"verifh/internal/smt"
)

// models is the per-path state of the environment models (DESIGN §3).
type models struct {
	// clock
	clockInit   bool
	curSec      BV
	curNsec     BV
	clockMin    *BV // lower bound (sec) for later readings
	clockMax    *BV // upper bound (sec) for later readings
	clockFrozen bool
	nowCount    int
	// rand
	rndCount        int
	rndDraws        [][]BV
	noDistinctDraws bool
	claimedDraw     map[*smt.Term]bool
	// aead
	seals []*sealEntry
	// metrics
	counters map[string]*BV
	// strings
	strLens map[*smt.Term]int
	// faults
	faultCap    int
	faultCapSet bool
	faulted     map[string]int
	faultBudget map[string]int
	faultCount  map[string]int
	// scheduling
	noPreempt     int
	preemptWithin string
	onlyYield     bool
	mapOrderAll   bool
	// memcall shadow page table
	guard       map[*Value]*regionInfo
	regionList  []*regionInfo
	modelAccess int
	memLog      []string
	// memguard buffers
	edges map[string]int // caller>callee call counts among repo functions (for call-site-specific known findings)
	// known classes registered on this path: label -> list
	classes map[string][]knownClass
	tags    []string
	// ghost log lines for the leak check
	logArgs []Value
	// json tokens
	jsonDocs []*jnode
}

type knownClass struct {
	id   string
	cond *smt.Term
}

type sealEntry struct {
	key, nonce, aad, pt, ct, tag []BV
	id                           int
}

type memRegion struct {
	data       []Value
	mapped     bool
	locked     bool
	prot       int // 1 none, 2 ro, 6 rw  (awnumar flag values)
	everSecret bool
}

func newModels() *models {
	return &models{
		counters:    map[string]*BV{},
		strLens:     map[*smt.Term]int{},
		faultBudget: map[string]int{},
		faulted:     map[string]int{},
		faultCount:  map[string]int{},
		classes:     map[string][]knownClass{},
		edges:       map[string]int{},
	}
}

type intrinsic func(in *Interp, fr *frame, args []Value) Value

var intrinsics = map[string]intrinsic{}
var objMethods = map[string]func(in *Interp, fr *frame, o *Obj, args []Value) Value{}

var dummyTypes = map[string]types.Type{}

func objType(kind string) types.Type {
	if t, ok := dummyTypes[kind]; ok {
		return t
	}
	t := types.NewNamed(types.NewTypeName(0, nil, "model."+kind, nil), types.NewStruct(nil, nil), nil)
	dummyTypes[kind] = t
	return t
}

func objIface(o *Obj) Iface { return Iface{T: objType(o.Kind), V: o} }

func init() {
	for _, k := range []string{"metrics.Timer", "metrics.Counter", "aes.Block", "cipher.AEAD", "rand.Reader", "sql.Result"} {
		objType(k)
	}
}

// ---- helpers ----

func (in *Interp) errorValue(msg string) Iface {
	// *errors.errorString{s}
	pkg := in.prog.ImportedPackage("errors")
	if pkg != nil {
		if t := pkg.Type("errorString"); t != nil {
			var v Value = Struct{Str{S: msg}}
			return Iface{T: types.NewPointer(t.Object().Type()), V: &v}
		}
	}
	panic(inconclusive{"errors package not loaded"})
}

func nilError() Iface { return Iface{} }

func bytesOf(v Value) []Value {
	s := v.(Slice)
	return s.A
}

func bvs(vs []Value) []BV {
	out := make([]BV, len(vs))
	for i, v := range vs {
		out[i] = v.(BV)
	}
	return out
}

func (in *Interp) eqBytes(a, b []BV) *smt.Term {
	if len(a) != len(b) {
		return in.tb.False
	}
	var cs []*smt.Term
	for i := range a {
		if a[i].T == nil && b[i].T == nil {
			if a[i].C != b[i].C {
				return in.tb.False
			}
			continue
		}
		cs = append(cs, in.tb.Eq(in.bvTerm(a[i]), in.bvTerm(b[i])))
	}
	return in.tb.And(cs...)
}

// maybeFault forks on an injected fault when the domain has budget left.
func (in *Interp) maybeFault(domain, site string) bool {
	if in.m.faultBudget[domain] <= 0 {
		return false
	}
	if in.m.faultCapSet && in.m.faultCap <= 0 {
		return false
	}
	in.m.faultCount[domain]++
	if in.decideN(2, "fault:"+domain+":"+site) == 1 {
		in.m.faultBudget[domain]--
		in.m.faultCap--
		in.m.faulted[domain+":"+site]++
		in.res.tag(fmt.Sprintf("fault:%s:%s#%d", domain, site, in.m.faultCount[domain]))
		return true
	}
	return false
}

// ---- virtual clock ----

const nsPerSec = 1000000000

func (in *Interp) clockNow() TimeV {
	m := in.m
	if !m.clockInit {
		m.clockInit = true
		m.curSec = mkBV(64, 0)
		m.curNsec = mkBV(64, 0)
	}
	if m.clockFrozen && m.nowCount > 0 {
		return TimeV{Sec: m.curSec, Nsec: m.curNsec}
	}
	if os.Getenv("GOSX_TRACE_NOW") != "" {
		fmt.Fprintf(os.Stderr, "NOW#%d frozen=%v %s\n", m.nowCount, m.clockFrozen, in.traceStack)
	}
	secV := in.fresh("now_s", smt.IntSort)
	nsecV := in.fresh("now_n", smt.IntSort)
	in.input(secV)
	in.input(nsecV)
	tb := in.tb
	// 2^20 <= sec < 2^36 ; 0 <= nsec < 1e9
	in.assume(tb.IntCmp("<", secV, tb.IntLit(1<<36)))
	in.assume(tb.IntCmp(">=", secV, tb.IntLit(1<<20)))
	in.assume(tb.IntCmp("<", nsecV, tb.IntLit(nsPerSec)))
	in.assume(tb.IntCmp(">=", nsecV, tb.IntLit(0)))
	sec, nsec := in.mkInt(secV, 37), in.mkInt(nsecV, 31)
	if m.nowCount > 0 {
		prev := TimeV{Sec: m.curSec, Nsec: m.curNsec}
		in.assume(in.boolTerm(in.notB(in.timeLess(TimeV{Sec: sec, Nsec: nsec}, prev))))
	}
	if m.clockMin != nil {
		in.assume(in.boolTerm(in.bvBinop(token.GEQ, true, sec, *m.clockMin, nil).(Bool)))
	}
	if m.clockMax != nil {
		in.assume(in.boolTerm(in.bvBinop(token.LEQ, true, sec, *m.clockMax, nil).(Bool)))
	}
	m.nowCount++
	m.curSec, m.curNsec = sec, nsec
	return TimeV{Sec: sec, Nsec: nsec}
}

func (in *Interp) timeAdd(t TimeV, d BV) TimeV {
	if t.Zero {
		panic(inconclusive{"Add on the zero time.Time"})
	}
	if d.T != nil {
		panic(inconclusive{"time.Add with a symbolic duration"})
	}
	dn := d.Signed()
	ds, dr := dn/nsPerSec, dn%nsPerSec
	if dr < 0 {
		ds--
		dr += nsPerSec
	}
	sec := in.bvBinop(token.ADD, true, t.Sec, mkBV(64, uint64(ds)), nil).(BV)
	nsec := t.Nsec
	if dr != 0 {
		sum := in.bvBinop(token.ADD, true, nsec, mkBV(64, uint64(dr)), nil).(BV)
		carry := in.bvBinop(token.GEQ, true, sum, mkBV(64, nsPerSec), nil).(Bool)
		if carry.T == nil {
			if carry.C {
				nsec = in.bvBinop(token.SUB, true, sum, mkBV(64, nsPerSec), nil).(BV)
				sec = in.bvBinop(token.ADD, true, sec, mkBV(64, 1), nil).(BV)
			} else {
				nsec = sum
			}
		} else {
			nsec = in.iteBV(carry, in.bvBinop(token.SUB, true, sum, mkBV(64, nsPerSec), nil).(BV), sum)
			sec = in.iteBV(carry, in.bvBinop(token.ADD, true, sec, mkBV(64, 1), nil).(BV), sec)
		}
	}
	return TimeV{Sec: sec, Nsec: nsec}
}

// iteBV keeps integer twins through an if-then-else when both arms have one.
func (in *Interp) iteBV(c Bool, a, b BV) BV {
	if c.T == nil {
		if c.C {
			return a
		}
		return b
	}
	ai, ab, ok1 := in.intTwin(a)
	bi, bb, ok2 := in.intTwin(b)
	if ok1 && ok2 {
		return in.mkInt(in.tb.Ite(c.T, ai, bi), max(ab, bb))
	}
	return in.mkBVT(in.tb.Ite(c.T, in.bvTerm(a), in.bvTerm(b)))
}

// timeLess returns a < b (lexicographic, signed seconds).
func (in *Interp) timeLess(a, b TimeV) Bool {
	if a.Zero || b.Zero {
		if a.Zero && b.Zero {
			return Bool{C: false}
		}
		return Bool{C: a.Zero} // the zero time precedes every modelled instant
	}
	lt := in.bvBinop(token.LSS, true, a.Sec, b.Sec, nil).(Bool)
	eq := in.eqBV(a.Sec, b.Sec)
	nlt := in.bvBinop(token.LSS, true, a.Nsec, b.Nsec, nil).(Bool)
	return in.orB(lt, in.andB(eq, nlt))
}

func (in *Interp) timeTruncate(t TimeV, d BV) TimeV {
	if d.T != nil {
		panic(inconclusive{"Truncate with a symbolic duration"})
	}
	dn := d.Signed()
	if dn <= 0 {
		return t
	}
	if t.Zero {
		return t
	}
	tb := in.tb
	// rem computes v - (v mod m) for a non-negative twinned word v
	floorTo := func(v BV, m int64, bits int) BV {
		if v.T == nil {
			s := v.Signed()
			return mkBV(64, uint64(s-((s%m)+m)%m))
		}
		vi, _, ok := in.intTwin(v)
		if !ok {
			panic(inconclusive{"Truncate of a time value without an integer twin"})
		}
		q := in.fresh("trq", smt.IntSort)
		r := in.fresh("trr", smt.IntSort)
		in.assume(tb.IntCmp(">=", r, tb.IntLit(0)))
		in.assume(tb.IntCmp("<", r, tb.IntLit(m)))
		in.assume(tb.Eq(vi, tb.IntBin("+", tb.IntBin("*", tb.IntLit(m), q), r)))
		return in.mkInt(tb.IntBin("-", vi, r), bits)
	}
	if dn%nsPerSec != 0 {
		if nsPerSec%dn != 0 {
			panic(inconclusive{fmt.Sprintf("Truncate(%dns): granularity neither whole seconds nor a divisor of 1s", dn)})
		}
		return TimeV{Sec: t.Sec, Nsec: floorTo(t.Nsec, dn, 31)}
	}
	m := dn / nsPerSec
	if 86400%m != 0 {
		panic(inconclusive{fmt.Sprintf("Truncate(%ds): granularity does not divide a day", m)})
	}
	if m == 1 {
		return TimeV{Sec: t.Sec, Nsec: mkBV(64, 0)}
	}
	return TimeV{Sec: floorTo(t.Sec, m, 38), Nsec: mkBV(64, 0)}
}

// ---- randomness ----

func (in *Interp) drawRandom(buf []Value) {
	k := in.m.rndCount
	in.m.rndCount++
	draw := make([]BV, len(buf))
	for i := range buf {
		v := in.tb.Var(fmt.Sprintf("rnd_%d_%d", k, i), smt.BVSort(8))
		draw[i] = BV{W: 8, T: v}
		buf[i] = draw[i]
	}
	// ideal randomness: draws of at least 16 bytes never repeat
	if len(draw) >= 16 && !in.m.noDistinctDraws {
		for _, p := range in.m.rndDraws {
			if len(p) == len(draw) {
				in.assume(in.tb.Not(in.eqBytes(p, draw)))
			}
		}
	}
	in.m.rndDraws = append(in.m.rndDraws, draw)
}

// ---- registration of intrinsics ----

func init() {
	reg := func(name string, f intrinsic) { intrinsics[name] = f }

	// time
	reg("time.Now", func(in *Interp, fr *frame, a []Value) Value { in.traceStack = stackOf(fr); return in.clockNow() })
	reg("time.Unix", func(in *Interp, fr *frame, a []Value) Value {
		sec, nsec := a[0].(BV), a[1].(BV)
		if nsec.T != nil || nsec.C >= nsPerSec {
			panic(inconclusive{"time.Unix with symbolic or out-of-range nsec"})
		}
		return TimeV{Sec: sec, Nsec: nsec}
	})
	reg("(time.Time).Add", func(in *Interp, fr *frame, a []Value) Value { return in.timeAdd(a[0].(TimeV), a[1].(BV)) })
	reg("(time.Time).After", func(in *Interp, fr *frame, a []Value) Value { return in.timeLess(a[1].(TimeV), a[0].(TimeV)) })
	reg("(time.Time).Before", func(in *Interp, fr *frame, a []Value) Value { return in.timeLess(a[0].(TimeV), a[1].(TimeV)) })
	reg("(time.Time).Equal", func(in *Interp, fr *frame, a []Value) Value { return in.equals(nil, a[0], a[1]) })
	reg("(time.Time).IsZero", func(in *Interp, fr *frame, a []Value) Value { return Bool{C: a[0].(TimeV).Zero} })
	reg("(time.Time).Unix", func(in *Interp, fr *frame, a []Value) Value {
		t := a[0].(TimeV)
		if t.Zero {
			z := int64(-62135596800)
			return mkBV(64, uint64(z))
		}
		return t.Sec
	})
	reg("(time.Time).Truncate", func(in *Interp, fr *frame, a []Value) Value { return in.timeTruncate(a[0].(TimeV), a[1].(BV)) })
	reg("(time.Time).UTC", func(in *Interp, fr *frame, a []Value) Value { return a[0] })
	reg("(time.Time).String", func(in *Interp, fr *frame, a []Value) Value { return Str{S: "<time>"} })
	reg("time.Sleep", func(in *Interp, fr *frame, a []Value) Value { in.schedPoint("sleep"); return nil })
	reg("time.Since", func(in *Interp, fr *frame, a []Value) Value {
		in.clockNow()
		return BV{W: 64, T: in.fresh("since", smt.BVSort(64))}
	})
	reg("(time.Duration).String", func(in *Interp, fr *frame, a []Value) Value {
		d := a[0].(BV)
		if d.T != nil {
			return Str{S: "<dur>"}
		}
		return Str{S: strconv.FormatInt(d.Signed(), 10) + "ns"}
	})

	// crypto/rand
	reg("crypto/rand.Read", func(in *Interp, fr *frame, a []Value) Value {
		buf := bytesOf(a[0])
		if in.maybeFault("rand", "Read") {
			return Tuple{mkBV(64, 0), in.errorValue("vx: injected rand failure")}
		}
		in.drawRandom(buf)
		return Tuple{mkBV(64, uint64(len(buf))), nilError()}
	})

	// crypto/rand.Reader (an io.Reader over the same model)
	objMethods["rand.Reader.Read"] = func(in *Interp, fr *frame, o *Obj, a []Value) Value {
		buf := bytesOf(a[0])
		if in.maybeFault("rand", "Read") {
			return Tuple{mkBV(64, 0), in.errorValue("vx: injected rand failure")}
		}
		in.drawRandom(buf)
		return Tuple{mkBV(64, uint64(len(buf))), nilError()}
	}

	// crypto/aes + cipher: ideal AEAD
	reg("crypto/aes.NewCipher", func(in *Interp, fr *frame, a []Value) Value {
		key := bytesOf(a[0])
		if len(key) > 0 {
			in.memAccess(&key[0], false)
		}
		switch len(key) {
		case 16, 24, 32:
		default:
			return Tuple{Iface{}, in.errorValue("crypto/aes: invalid key size " + strconv.Itoa(len(key)))}
		}
		k := append([]Value{}, key...)
		return Tuple{objIface(&Obj{Kind: "aes.Block", X: bvs(k)}), nilError()}
	})
	reg("crypto/cipher.NewGCM", func(in *Interp, fr *frame, a []Value) Value {
		blk := a[0].(Iface).V.(*Obj)
		return Tuple{objIface(&Obj{Kind: "cipher.AEAD", X: blk.X}), nilError()}
	})
	objMethods["cipher.AEAD.NonceSize"] = func(in *Interp, fr *frame, o *Obj, a []Value) Value { return mkBV(64, 12) }
	objMethods["cipher.AEAD.Overhead"] = func(in *Interp, fr *frame, o *Obj, a []Value) Value { return mkBV(64, 16) }
	objMethods["cipher.AEAD.Seal"] = aeadSeal
	objMethods["cipher.AEAD.Open"] = aeadOpen

	// go-metrics
	reg("github.com/rcrowley/go-metrics.GetOrRegisterTimer", func(in *Interp, fr *frame, a []Value) Value {
		return objIface(&Obj{Kind: "metrics.Timer"})
	})
	reg("github.com/rcrowley/go-metrics.GetOrRegisterCounter", func(in *Interp, fr *frame, a []Value) Value {
		name := a[0].(Str).S
		if _, ok := in.m.counters[name]; !ok {
			z := mkBV(64, 0)
			in.m.counters[name] = &z
		}
		return objIface(&Obj{Kind: "metrics.Counter", X: name})
	})
	objMethods["metrics.Timer.UpdateSince"] = func(in *Interp, fr *frame, o *Obj, a []Value) Value { return nil }
	objMethods["metrics.Timer.Update"] = func(in *Interp, fr *frame, o *Obj, a []Value) Value { return nil }
	objMethods["metrics.Timer.Time"] = func(in *Interp, fr *frame, o *Obj, a []Value) Value {
		in.call(fr, a[0], nil)
		return nil
	}
	cnt := func(sign int64) func(in *Interp, fr *frame, o *Obj, a []Value) Value {
		return func(in *Interp, fr *frame, o *Obj, a []Value) Value {
			c := in.m.counters[o.X.(string)]
			d := a[0].(BV)
			if sign < 0 {
				d = in.unopNeg(d)
			}
			*c = in.bvBinop(tokenADD, true, *c, d, nil).(BV)
			return nil
		}
	}
	objMethods["metrics.Counter.Inc"] = cnt(1)
	objMethods["metrics.Counter.Dec"] = cnt(-1)
	objMethods["metrics.Counter.Count"] = func(in *Interp, fr *frame, o *Obj, a []Value) Value {
		return *in.m.counters[o.X.(string)]
	}
	objMethods["metrics.Counter.Clear"] = func(in *Interp, fr *frame, o *Obj, a []Value) Value {
		*in.m.counters[o.X.(string)] = mkBV(64, 0)
		return nil
	}
	reg("(*github.com/rcrowley/go-metrics.StandardRegistry).UnregisterAll", func(in *Interp, fr *frame, a []Value) Value { return nil })

	// runtime
	reg("(runtime.errorString).Error", func(in *Interp, fr *frame, a []Value) Value { return a[0] })
	reg("runtime.SetFinalizer", func(in *Interp, fr *frame, a []Value) Value { return nil })
	reg("runtime.KeepAlive", func(in *Interp, fr *frame, a []Value) Value { return nil })
	reg("runtime.Gosched", func(in *Interp, fr *frame, a []Value) Value { in.schedPoint("gosched"); return nil })
	reg("runtime.GC", func(in *Interp, fr *frame, a []Value) Value { return nil })
	reg("runtime/debug.Stack", func(in *Interp, fr *frame, a []Value) Value { return Slice{Nil: true} })
	reg("runtime/debug.PrintStack", func(in *Interp, fr *frame, a []Value) Value { return nil })
	reg("github.com/pkg/errors.callers", func(in *Interp, fr *frame, a []Value) Value { return (*Value)(nil) })

	// strconv / strings on symbolic data
	reg("strconv.FormatInt", func(in *Interp, fr *frame, a []Value) Value {
		v, base := a[0].(BV), a[1].(BV)
		if v.T == nil && base.T == nil {
			return Str{S: strconv.FormatInt(v.Signed(), int(base.C))}
		}
		if base.T != nil || base.C != 10 {
			panic(inconclusive{"FormatInt of a symbolic value in a base other than 10"})
		}
		return Str{Segs: []Seg{{Itoa: v.T, ItoaV: v}}}
	})
	reg("strconv.Itoa", func(in *Interp, fr *frame, a []Value) Value {
		v := a[0].(BV)
		if v.T == nil {
			return Str{S: strconv.FormatInt(v.Signed(), 10)}
		}
		return Str{Segs: []Seg{{Itoa: v.T, ItoaV: v}}}
	})
	reg("strings.Index", func(in *Interp, fr *frame, a []Value) Value {
		s, sub := a[0].(Str), a[1].(Str)
		if s.IsConc() && sub.IsConc() {
			return mkBV(64, uint64(int64(strings.Index(s.S, sub.S))))
		}
		// only "== 0" (prefix) is decided exactly; other positions are abstracted
		idx := in.fresh("stridx", smt.BVSort(64))
		pre := in.tb.StrPrefixOf(in.strTerm(sub), in.strTerm(s))
		in.assume(in.tb.Eq(in.tb.Eq(idx, in.tb.BV(64, 0)), pre))
		in.assume(in.tb.BVCmp("bvsge", idx, in.tb.BV(64, ^uint64(0))))
		return BV{W: 64, T: idx}
	})
	reg("strings.HasPrefix", func(in *Interp, fr *frame, a []Value) Value {
		s, p := a[0].(Str), a[1].(Str)
		if s.IsConc() && p.IsConc() {
			return Bool{C: strings.HasPrefix(s.S, p.S)}
		}
		return in.mkBoolT(in.tb.StrPrefixOf(in.strTerm(p), in.strTerm(s)))
	})

	// sort.Slice: the library's insertion sort (exact for n <= 12)
	sortSlice := func(in *Interp, fr *frame, a []Value) Value {
		s := a[0].(Iface).V.(Slice)
		n := len(s.A)
		if n > 12 {
			panic(inconclusive{"sort.Slice on more than 12 elements (pdqsort not modelled)"})
		}
		less := func(i, j int) bool {
			r := in.call(fr, a[1], []Value{mkBV(64, uint64(i)), mkBV(64, uint64(j))}).(Bool)
			if r.T == nil {
				return r.C
			}
			return in.decide([]*smt.Term{r.T, in.tb.Not(r.T)}, "if") == 0
		}
		for i := 1; i < n; i++ {
			for j := i; j > 0 && less(j, j-1); j-- {
				s.A[j], s.A[j-1] = s.A[j-1], s.A[j]
			}
		}
		return nil
	}
	reg("sort.Slice", sortSlice)
	reg("sort.SliceStable", sortSlice)

	// errors
	reg("errors.Is", func(in *Interp, fr *frame, a []Value) Value {
		return Bool{C: in.errorsIs(fr, a[0].(Iface), a[1].(Iface))}
	})
	reg("errors.Unwrap", func(in *Interp, fr *frame, a []Value) Value { return in.errUnwrap(fr, a[0].(Iface)) })
	reg("errors.As", func(in *Interp, fr *frame, a []Value) Value {
		err := a[0].(Iface)
		target := a[1].(Iface)
		tp := target.V.(*Value)
		tt := deref(target.T)
		for err.T != nil {
			if it, ok := tt.Underlying().(*types.Interface); ok {
				if m, _ := types.MissingMethod(err.T, it, true); m == nil {
					*tp = err
					return Bool{C: true}
				}
			} else if types.Identical(err.T, tt) {
				*tp = err.V
				return Bool{C: true}
			}
			err = in.errUnwrap(fr, err)
		}
		return Bool{C: false}
	})
	reg("errors.Join", func(in *Interp, fr *frame, a []Value) Value { panic(inconclusive{"errors.Join"}) })
}

const tokenADD = token.ADD

func (in *Interp) unopNeg(b BV) BV {
	if b.T == nil {
		return mkBV(int(b.W), -b.C)
	}
	return in.mkBVT(in.tb.BVNeg(b.T))
}

func (in *Interp) errUnwrap(fr *frame, err Iface) Iface {
	if err.T == nil {
		return Iface{}
	}
	ms := in.prog.MethodSets.MethodSet(err.T)
	sel := ms.Lookup(nil, "Unwrap")
	if sel == nil {
		return Iface{}
	}
	f := in.prog.MethodValue(sel)
	if f == nil || f.Signature.Results().Len() != 1 {
		return Iface{}
	}
	if !types.Identical(f.Signature.Results().At(0).Type(), types.Universe.Lookup("error").Type()) {
		return Iface{}
	}
	r := in.call(fr, f, []Value{err.V})
	return r.(Iface)
}

func (in *Interp) errorsIs(fr *frame, err, target Iface) bool {
	if err.T == nil || target.T == nil {
		return err.T == nil && target.T == nil
	}
	for err.T != nil {
		if target.T != nil && types.Identical(err.T, target.T) && types.Comparable(err.T) {
			eq := in.equals(err.T, err.V, target.V)
			if eq.T != nil {
				panic(inconclusive{"errors.Is on symbolic error values"})
			}
			if eq.C {
				return true
			}
		}
		// an Is(error) bool method of the error in the chain decides as well
		if sel := in.prog.MethodSets.MethodSet(err.T).Lookup(nil, "Is"); sel != nil {
			if f := in.prog.MethodValue(sel); f != nil && f.Signature.Params().Len() == 1 && f.Signature.Results().Len() == 1 {
				if r, ok := in.call(fr, f, []Value{err.V, target}).(Bool); ok {
					if r.T != nil {
						panic(inconclusive{"errors.Is: symbolic result of an Is method"})
					}
					if r.C {
						return true
					}
				}
			}
		}
		err = in.errUnwrap(fr, err)
	}
	return false
}

// ---- ideal AEAD ----

func aeadSeal(in *Interp, fr *frame, o *Obj, a []Value) Value {
	dst := a[0].(Slice)
	nonce, pt := bvs(bytesOf(a[1])), bvs(bytesOf(a[2]))
	var aad []BV
	if s, ok := a[3].(Slice); ok {
		aad = bvs(s.A)
	}
	if len(nonce) != 12 {
		in.goPanic("crypto/cipher: incorrect nonce length given to GCM")
	}
	key := o.X.([]BV)
	id := len(in.m.seals)
	e := &sealEntry{key: append([]BV{}, key...), nonce: append([]BV{}, nonce...), aad: append([]BV{}, aad...), pt: append([]BV{}, pt...), id: id}
	for i := range pt {
		e.ct = append(e.ct, BV{W: 8, T: in.tb.Var(fmt.Sprintf("ct_%d_%d", id, i), smt.BVSort(8))})
	}
	for i := 0; i < 16; i++ {
		e.tag = append(e.tag, BV{W: 8, T: in.tb.Var(fmt.Sprintf("tag_%d_%d", id, i), smt.BVSort(8))})
	}
	// ideal-AEAD axiom: tags of distinct Seal calls are pairwise distinct
	for _, p := range in.m.seals {
		in.assume(in.tb.Not(in.eqBytes(p.tag, e.tag)))
	}
	in.m.seals = append(in.m.seals, e)
	out := make([]Value, 0, len(e.ct)+16)
	for _, b := range e.ct {
		out = append(out, b)
	}
	for _, b := range e.tag {
		out = append(out, b)
	}
	// sliceForAppend: in place when capacity allows
	if cap(dst.A)-len(dst.A) >= len(out) {
		res := dst.A[:len(dst.A)+len(out)]
		copy(res[len(dst.A):], out)
		return Slice{A: res}
	}
	res := make([]Value, len(dst.A)+len(out))
	copy(res, dst.A)
	copy(res[len(dst.A):], out)
	return Slice{A: res}
}

func aeadOpen(in *Interp, fr *frame, o *Obj, a []Value) Value {
	dst := a[0].(Slice)
	nonce, ct := bvs(bytesOf(a[1])), bvs(bytesOf(a[2]))
	var aad []BV
	if s, ok := a[3].(Slice); ok {
		aad = bvs(s.A)
	}
	if len(nonce) != 12 {
		in.goPanic("crypto/cipher: incorrect nonce length given to GCM")
	}
	fail := func() Value {
		// like crypto/cipher: the output region (inside dst's spare capacity when there is enough of it) is cleared
		if n := len(ct) - 16; n > 0 && cap(dst.A)-len(dst.A) >= n {
			region := dst.A[len(dst.A) : len(dst.A)+n]
			for i := range region {
				region[i] = mkBV(8, 0)
			}
		}
		return Tuple{Slice{Nil: true}, in.errorValue("cipher: message authentication failed")}
	}
	if len(ct) < 16 {
		return Tuple{Slice{Nil: true}, in.errorValue("cipher: message authentication failed")}
	}
	key := o.X.([]BV)
	body, tag := ct[:len(ct)-16], ct[len(ct)-16:]
	var cands []*sealEntry
	var conds []*smt.Term
	// which seal (if any) does the presented tag come from, syntactically?
	from := -1
	for _, e := range in.m.seals {
		same := true
		for i := range tag {
			if tag[i].T == nil || tag[i].T != e.tag[i].T {
				same = false
				break
			}
		}
		if same {
			from = e.id
			break
		}
	}
	for _, e := range in.m.seals {
		if len(e.pt) != len(body) {
			continue
		}
		if from >= 0 && from != e.id {
			continue // distinct-tags axiom: the tag of seal `from` cannot equal the tag of seal e
		}
		c := in.tb.And(in.eqBytes(e.key, key), in.eqBytes(e.nonce, nonce), in.eqBytes(e.aad, aad), in.eqBytes(e.ct, body), in.eqBytes(e.tag, tag))
		if c == in.tb.False {
			continue
		}
		cands = append(cands, e)
		conds = append(conds, c)
	}
	if len(cands) == 0 {
		return fail()
	}
	alts := make([]*smt.Term, 0, len(cands)+1)
	var none []*smt.Term
	for i := range cands {
		alts = append(alts, in.tb.And(append(append([]*smt.Term{}, none...), conds[i])...))
		none = append(none, in.tb.Not(conds[i]))
	}
	alts = append(alts, in.tb.And(none...))
	k := in.decide(alts, "aead.open")
	if k == len(cands) {
		return fail()
	}
	e := cands[k]
	in.res.note("aead.open.hit")
	// Open appends to dst: in place when dst has the capacity (dst = data[:0] overwrites the ciphertext it was read
	// from), into a fresh array otherwise
	if len(e.pt) > 0 && cap(dst.A)-len(dst.A) >= len(e.pt) {
		res := dst.A[:len(dst.A)+len(e.pt)]
		for i, b := range e.pt {
			res[len(dst.A)+i] = b
		}
		return Tuple{Slice{A: res}, nilError()}
	}
	out := make([]Value, len(dst.A), len(dst.A)+len(e.pt))
	copy(out, dst.A)
	for _, b := range e.pt {
		out = append(out, b)
	}
	if len(out) == 0 {
		return Tuple{Slice{Nil: true}, nilError()}
	}
	return Tuple{Slice{A: out}, nilError()}
}

// ---- fmt ----

func (in *Interp) formatArg(fr *frame, verb byte, v Value) Str {
	if i, ok := v.(Iface); ok {
		if i.T == nil {
			return Str{S: "<nil>"}
		}
		// error / Stringer
		if verb == 's' || verb == 'v' || verb == 'q' {
			ms := in.prog.MethodSets.MethodSet(i.T)
			for _, name := range []string{"Error", "String"} {
				if sel := ms.Lookup(nil, name); sel != nil {
					if f := in.prog.MethodValue(sel); f != nil && f.Signature.Params().Len() == 0 && f.Signature.Results().Len() == 1 {
						if b, ok := f.Signature.Results().At(0).Type().Underlying().(*types.Basic); ok && b.Kind() == types.String {
							if p, isPtr := i.V.(*Value); isPtr && p == nil {
								return Str{S: "<nil>"}
							}
							if _, isObj := i.V.(*Obj); isObj {
								return Str{S: "<obj>"}
							}
							return in.call(fr, f, []Value{i.V}).(Str)
						}
					}
				}
			}
		}
		v = i.V
	}
	switch v := v.(type) {
	case Str:
		if verb == 'q' {
			return strConcat(strConcat(Str{S: `"`}, v), Str{S: `"`})
		}
		return v
	case BV:
		if v.T == nil {
			switch verb {
			case 'x':
				return Str{S: strconv.FormatUint(v.C, 16)}
			case 'c':
				return Str{S: string(rune(v.C))}
			}
			return Str{S: strconv.FormatInt(v.Signed(), 10)}
		}
		if v.W == 64 {
			return Str{Segs: []Seg{{Itoa: v.T, ItoaV: v}}}
		}
		e := in.tb.SExt(64, v.T)
		return Str{Segs: []Seg{{Itoa: e, ItoaV: BV{W: 64, T: e}}}}
	case Bool:
		if v.T == nil {
			return Str{S: strconv.FormatBool(v.C)}
		}
		return Str{S: "<bool>"}
	case *Value:
		if v == nil {
			return Str{S: "<nil>"}
		}
		return Str{S: fmt.Sprintf("0xc%07x", ptrID(in, v))}
	case Float:
		return Str{S: strconv.FormatFloat(v.F, 'g', -1, 64)}
	case nil:
		return Str{S: "<nil>"}
	case Slice:
		if verb == 's' || verb == 'x' || verb == 'v' {
			return Str{S: "<bytes>"}
		}
	}
	return Str{S: fmt.Sprintf("<%T>", v)}
}

func ptrID(in *Interp, p *Value) int {
	if in.m == nil {
		return 0
	}
	if id, ok := in.side[p]; ok {
		if n, ok := id.(ptrTag); ok {
			return int(n)
		}
	}
	return 0
}

type ptrTag int

// hostFmtArgs converts fmt operands to host values when every one of them is a concrete value of a basic type.
func hostFmtArgs(args []Value) ([]interface{}, bool) {
	out := make([]interface{}, 0, len(args))
	for _, a := range args {
		it, ok := a.(Iface)
		if !ok || it.T == nil {
			return nil, false
		}
		b, ok := it.T.(*types.Basic) // named types may carry String/Error/Format methods: not here
		if !ok {
			return nil, false
		}
		switch v := it.V.(type) {
		case Str:
			if !v.IsConc() || b.Kind() != types.String {
				return nil, false
			}
			out = append(out, v.S)
		case Bool:
			if v.T != nil {
				return nil, false
			}
			out = append(out, v.C)
		case BV:
			if v.T != nil {
				return nil, false
			}
			switch b.Kind() {
			case types.Int:
				out = append(out, int(v.Signed()))
			case types.Int8:
				out = append(out, int8(v.Signed()))
			case types.Int16:
				out = append(out, int16(v.Signed()))
			case types.Int32:
				out = append(out, int32(v.Signed()))
			case types.Int64:
				out = append(out, v.Signed())
			case types.Uint:
				out = append(out, uint(v.C))
			case types.Uint8:
				out = append(out, uint8(v.C))
			case types.Uint16:
				out = append(out, uint16(v.C))
			case types.Uint32:
				out = append(out, uint32(v.C))
			case types.Uint64:
				out = append(out, v.C)
			default:
				return nil, false
			}
		default:
			return nil, false
		}
	}
	return out, true
}

func (in *Interp) sprintf(fr *frame, format Str, args []Value) Str {
	if !format.IsConc() {
		panic(inconclusive{"Sprintf with a symbolic format"})
	}
	f := format.S
	// concrete format and concrete basic-typed operands: the host's fmt decides (flags, widths, bad verbs, missing and
	// extra operands exactly as the real program prints them)
	if host, ok := hostFmtArgs(args); ok {
		return Str{S: fmt.Sprintf(f, host...)}
	}
	out := Str{}
	ai := 0
	for i := 0; i < len(f); i++ {
		c := f[i]
		if c != '%' {
			j := i
			for j < len(f) && f[j] != '%' {
				j++
			}
			out = strConcat(out, Str{S: f[i:j]})
			i = j - 1
			continue
		}
		i++
		if i >= len(f) {
			out = strConcat(out, Str{S: "%!(NOVERB)"})
			break
		}
		// flags / width (ignored)
		for i < len(f) && strings.IndexByte("+-# 0123456789.", f[i]) >= 0 {
			i++
		}
		if i >= len(f) {
			break
		}
		verb := f[i]
		if verb == '%' {
			out = strConcat(out, Str{S: "%"})
			continue
		}
		if ai >= len(args) {
			out = strConcat(out, Str{S: "%!" + string(verb) + "(MISSING)"})
			continue
		}
		arg := args[ai]
		ai++
		switch verb {
		case 'T':
			if it, ok := arg.(Iface); ok && it.T != nil {
				out = strConcat(out, Str{S: it.T.String()})
			} else {
				out = strConcat(out, Str{S: "<nil>"})
			}
		case 'p':
			out = strConcat(out, Str{S: "0xPTR"})
		default:
			out = strConcat(out, in.formatArg(fr, verb, arg))
		}
	}
	return out
}

func variadic(v Value) []Value {
	if s, ok := v.(Slice); ok {
		return s.A
	}
	return nil
}

func init() {
	reg := func(name string, f intrinsic) { intrinsics[name] = f }
	reg("fmt.Sprintf", func(in *Interp, fr *frame, a []Value) Value { return in.sprintf(fr, a[0].(Str), variadic(a[1])) })
	reg("fmt.Sprint", func(in *Interp, fr *frame, a []Value) Value {
		out := Str{}
		for _, v := range variadic(a[0]) {
			out = strConcat(out, in.formatArg(fr, 'v', v))
		}
		return out
	})
	reg("fmt.Printf", func(in *Interp, fr *frame, a []Value) Value { return Tuple{mkBV(64, 0), nilError()} })
	reg("fmt.Println", func(in *Interp, fr *frame, a []Value) Value { return Tuple{mkBV(64, 0), nilError()} })
	reg("fmt.Print", func(in *Interp, fr *frame, a []Value) Value { return Tuple{mkBV(64, 0), nilError()} })
	reg("fmt.Fprintf", func(in *Interp, fr *frame, a []Value) Value { return Tuple{mkBV(64, 0), nilError()} })
	reg("fmt.Fprintln", func(in *Interp, fr *frame, a []Value) Value { return Tuple{mkBV(64, 0), nilError()} })
	reg("log.Println", func(in *Interp, fr *frame, a []Value) Value { return nil })
	reg("log.Printf", func(in *Interp, fr *frame, a []Value) Value { return nil })
	reg("fmt.Errorf", func(in *Interp, fr *frame, a []Value) Value {
		format := a[0].(Str)
		args := variadic(a[1])
		msg := in.sprintf(fr, Str{S: strings.ReplaceAll(format.S, "%w", "%v")}, args)
		// find the %w operand
		var wrapped Iface
		hasW := false
		ai := 0
		f := format.S
		for i := 0; i < len(f); i++ {
			if f[i] != '%' {
				continue
			}
			i++
			for i < len(f) && strings.IndexByte("+-# 0123456789.", f[i]) >= 0 {
				i++
			}
			if i >= len(f) || f[i] == '%' {
				continue
			}
			if f[i] == 'w' && ai < len(args) {
				if e, ok := args[ai].(Iface); ok && !hasW {
					wrapped, hasW = e, true
				}
			}
			ai++
		}
		pkg := in.prog.ImportedPackage("fmt")
		if hasW && pkg != nil && pkg.Type("wrapError") != nil {
			var v Value = Struct{msg, wrapped}
			return Iface{T: types.NewPointer(pkg.Type("wrapError").Object().Type()), V: &v}
		}
		e := in.errorValue("")
		(*e.V.(*Value)) = Struct{msg}
		return e
	})
	_ = sort.Ints
	_ = ssa.NaiveForm
}
