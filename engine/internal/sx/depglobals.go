package sx

import (
	"fmt"
	"os"

	"golang.org/x/tools/go/ssa"
)

// initDepGlobal gives selected dependency-package globals their initial value; any
// other dependency global that is read stays zero, which is only sound for the
// whitelisted zero-initialised ones — everything else aborts as inconclusive on read.
func (in *Interp) initDepGlobal(g *ssa.Global, p *Value) {
	name := g.Pkg.Pkg.Path() + "." + g.Name()
	if os.Getenv("GOSX_TRACE_GLOBALS") != "" {
		fmt.Fprintln(os.Stderr, "DEPGLOBAL", name)
	}
	switch name {
	case "io.EOF":
		*p = in.errorValue("EOF")
	case "io.ErrUnexpectedEOF":
		*p = in.errorValue("unexpected EOF")
	case "io.ErrShortBuffer":
		*p = in.errorValue("short buffer")
	case "encoding/base64.StdEncoding":
		in.b64EncodingGlobal(p, "std")
	case "encoding/base64.RawStdEncoding":
		in.b64EncodingGlobal(p, "raw")
	case "encoding/base64.URLEncoding":
		in.b64EncodingGlobal(p, "url")
	case "encoding/base64.RawURLEncoding":
		in.b64EncodingGlobal(p, "rawurl")
	case "crypto/rand.Reader":
		*p = objIface(&Obj{Kind: "rand.Reader"})
	case "database/sql.ErrNoRows":
		*p = in.errorValue("sql: no rows in result set")
	case "context.Canceled":
		*p = in.errorValue("context canceled")
	case "context.DeadlineExceeded":
		// var DeadlineExceeded error = deadlineExceededError{}
		if o := g.Pkg.Pkg.Scope().Lookup("deadlineExceededError"); o != nil {
			*p = Iface{T: o.Type(), V: Struct{}}
		} else {
			panic(inconclusive{"context.deadlineExceededError not found"})
		}
	default:
		if zeroOKGlobals[name] {
			return
		}
		// Reading an un-run initialiser's variable would silently see zero: refuse.
		if in.cfg.allowedZeroGlobalPkg(g.Pkg.Pkg.Path()) {
			return
		}
		panic(inconclusive{"read of dependency global " + name + " whose package init is not executed"})
	}
}

var zeroOKGlobals = map[string]bool{
	"sync.expunged": true,
	// empty-struct values
	"encoding/binary.LittleEndian": true,
	"encoding/binary.BigEndian":    true,
}

func (c *Config) allowedZeroGlobalPkg(path string) bool {
	switch path {
	case "container/list", "sort", "strings", "bytes", "sync", "sync/atomic", "context", "strconv", "unicode/utf8":
		return true
	}
	return false
}
