package sx

import (
	"fmt"
	"go/types"
	"strconv"
	"strings"

	"golang.org/x/tools/go/ssa"

	"verifh/internal/smt"
)

// Value is one of:
//
//	BV, Bool, Float, Str            scalars (possibly symbolic)
//	*Value                          pointer (nil pointer = (*Value)(nil))
//	Struct, Array                   aggregates with value semantics
//	[]Value  (as Slice)             slice
//	*Map, *Chan                     reference types
//	*ssa.Function, *Closure, *ssa.Builtin   funcs
//	Iface                           interface value
//	Tuple                           multi-value
//	TimeV                           model of time.Time
//	*Obj                            opaque model object
//	UnsafePtr                       unsafe.Pointer
//	nil                             nil func / zero placeholder
type Value interface{}

type BV struct {
	W uint8
	C uint64
	T *smt.Term
	// Integer twin (W == 64, signed reading): I is an Int-sorted term whose value is
	// exactly the signed value of this word, known to lie in (-2^IB, 2^IB). T is then
	// ((_ int2bv 64) I). Comparisons and +/- between twinned words are done in linear
	// integer arithmetic, which is what keeps the clock/timestamp reasoning cheap.
	I  *smt.Term
	IB uint8
}

type Bool struct {
	C bool
	T *smt.Term
}

type Float struct {
	W uint8
	F float64
}

type Complex struct{ C complex128 }

// Seg is a piece of a string.
type Seg struct {
	Lit   string
	T     *smt.Term // String-sorted variable/term
	Itoa  *smt.Term // BV64: decimal rendering of a signed integer
	ItoaV BV        // the same word with its integer twin, if any
	B64   []BV      // non-nil: base64 text of these bytes (at least one of them symbolic) in encoding Enc
	Enc   string    // "std", "raw", "url", "rawurl"
}

func (g Seg) isLit() bool { return g.T == nil && g.Itoa == nil && g.B64 == nil }

type Str struct {
	S    string
	Segs []Seg // non-nil => symbolic; S unused
}

type Struct []Value
type Array []Value
type Slice struct {
	A   []Value // the underlying window: A[:len] visible, cap(A) is the capacity
	Nil bool
}
type Tuple []Value

type Iface struct {
	T types.Type // nil => nil interface
	V Value
}

type Closure struct {
	Fn  *ssa.Function
	Env []Value
}

type UnsafePtr struct{ P *Value }

// TimeV models time.Time as (sec since Unix epoch, nsec in [0,1e9)).
type TimeV struct {
	Sec, Nsec BV
	Zero      bool // the zero Time (year 1)
}

// Obj is an opaque model object with interpreter-implemented methods.
type Obj struct {
	Kind string
	F    map[string]Value
	X    interface{}
}

type mapEntry struct {
	K, V    Value
	deleted bool
}

type Map struct {
	KeyT    types.Type
	Entries []*mapEntry
	N       int
}

type Chan struct {
	Cap    int
	Buf    []Value
	Closed bool
	ElemT  types.Type
	// rendezvous bookkeeping for unbuffered channels
	recvWaiting int
	sendq       []*chanSend
}

type chanSend struct {
	v     Value
	taken bool
	th    *Thread
}

func mkBV(w int, c uint64) BV {
	if w < 64 {
		c &= (uint64(1) << uint(w)) - 1
	}
	return BV{W: uint8(w), C: c}
}

func (b BV) IsConc() bool { return b.T == nil }

func (b BV) Signed() int64 {
	w := int(b.W)
	if w >= 64 {
		return int64(b.C)
	}
	sh := uint(64 - w)
	return int64(b.C<<sh) >> sh
}

func (in *Interp) bvTerm(b BV) *smt.Term {
	if b.T != nil {
		return b.T
	}
	return in.tb.BV(int(b.W), b.C)
}

func (in *Interp) boolTerm(b Bool) *smt.Term {
	if b.T != nil {
		return b.T
	}
	return in.tb.Bool(b.C)
}

func (in *Interp) mkBoolT(t *smt.Term) Bool {
	switch t {
	case in.tb.True:
		return Bool{C: true}
	case in.tb.False:
		return Bool{C: false}
	}
	return Bool{T: t}
}

func (in *Interp) mkBVT(t *smt.Term) BV {
	if t.Op == "bv" {
		return BV{W: uint8(t.Sort.W), C: t.Val}
	}
	return BV{W: uint8(t.Sort.W), T: t}
}

func concStr(s string) Str { return Str{S: s} }

func (s Str) IsConc() bool { return s.Segs == nil }

func (s Str) segs() []Seg {
	if s.Segs != nil {
		return s.Segs
	}
	if s.S == "" {
		return []Seg{}
	}
	return []Seg{{Lit: s.S}}
}

func normSegs(segs []Seg) Str {
	var out []Seg
	sym := false
	for _, g := range segs {
		if g.isLit() {
			if g.Lit == "" {
				continue
			}
			if n := len(out); n > 0 && out[n-1].isLit() {
				out[n-1].Lit += g.Lit
				continue
			}
		} else {
			sym = true
		}
		out = append(out, g)
	}
	if !sym {
		if len(out) == 0 {
			return Str{}
		}
		return Str{S: out[0].Lit}
	}
	return Str{Segs: out}
}

func strConcat(a, b Str) Str {
	if a.IsConc() && b.IsConc() {
		return Str{S: a.S + b.S}
	}
	return normSegs(append(append([]Seg{}, a.segs()...), b.segs()...))
}

func (s Str) String() string {
	if s.IsConc() {
		return strconv.Quote(s.S)
	}
	var sb strings.Builder
	for _, g := range s.Segs {
		switch {
		case g.T != nil:
			sb.WriteString("<" + g.T.Name + ">")
		case g.Itoa != nil:
			sb.WriteString("<itoa>")
		case g.B64 != nil:
			sb.WriteString("<base64:" + g.Enc + ">")
		default:
			sb.WriteString(g.Lit)
		}
	}
	return sb.String()
}

// ---- zero values ----

func isTimeType(t types.Type) bool {
	n, ok := t.(*types.Named)
	if !ok {
		return false
	}
	o := n.Obj()
	return o.Pkg() != nil && o.Pkg().Path() == "time" && o.Name() == "Time"
}

func (in *Interp) zero(t types.Type) Value {
	switch t := t.(type) {
	case *types.Basic:
		if t.Kind() == types.UntypedNil {
			panic("untyped nil has no zero value")
		}
		if t.Info()&types.IsUntyped != 0 {
			t = types.Default(t).(*types.Basic)
		}
		switch t.Kind() {
		case types.Bool:
			return Bool{}
		case types.Int, types.Int64, types.Uint, types.Uint64, types.Uintptr:
			return BV{W: 64}
		case types.Int8, types.Uint8:
			return BV{W: 8}
		case types.Int16, types.Uint16:
			return BV{W: 16}
		case types.Int32, types.Uint32:
			return BV{W: 32}
		case types.Float32:
			return Float{W: 32}
		case types.Float64:
			return Float{W: 64}
		case types.Complex64, types.Complex128:
			return Complex{}
		case types.String:
			return Str{}
		case types.UnsafePointer:
			return UnsafePtr{}
		default:
			panic(fmt.Sprint("zero for unexpected type:", t))
		}
	case *types.Pointer:
		return (*Value)(nil)
	case *types.Array:
		a := make(Array, t.Len())
		for i := range a {
			a[i] = in.zero(t.Elem())
		}
		return a
	case *types.Named:
		if isTimeType(t) {
			return TimeV{Zero: true, Sec: BV{W: 64}, Nsec: BV{W: 64}}
		}
		return in.zero(t.Underlying())
	case *types.Alias:
		return in.zero(types.Unalias(t))
	case *types.Interface:
		return Iface{}
	case *types.Slice:
		return Slice{Nil: true}
	case *types.Struct:
		s := make(Struct, t.NumFields())
		for i := range s {
			s[i] = in.zero(t.Field(i).Type())
		}
		return s
	case *types.Tuple:
		if t.Len() == 1 {
			return in.zero(t.At(0).Type())
		}
		s := make(Tuple, t.Len())
		for i := range s {
			s[i] = in.zero(t.At(i).Type())
		}
		return s
	case *types.Chan:
		return (*Chan)(nil)
	case *types.Map:
		return (*Map)(nil)
	case *types.Signature:
		return (*ssa.Function)(nil)
	case *types.TypeParam:
		panic("zero of type parameter (generics must be instantiated)")
	}
	panic(fmt.Sprint("zero: unexpected ", t))
}

// copyVal returns a copy of v with value semantics for aggregates.
// storeInto assigns v to the variable at p the way memory does: aggregate values are written element by element
// into the existing storage, so pointers to fields / elements taken before the store stay valid (go/ssa emits
// "t = &p.f; *p = T{}; *t = x" for "*p = T{f: x}").
func storeInto(p *Value, v Value) {
	switch sv := v.(type) {
	case Struct:
		if dv, ok := (*p).(Struct); ok && len(dv) == len(sv) {
			for i := range sv {
				storeInto(&dv[i], sv[i])
			}
			return
		}
	case Array:
		if dv, ok := (*p).(Array); ok && len(dv) == len(sv) {
			for i := range sv {
				storeInto(&dv[i], sv[i])
			}
			return
		}
	}
	*p = v
}

func copyVal(v Value) Value {
	switch v := v.(type) {
	case Struct:
		c := make(Struct, len(v))
		for i, f := range v {
			c[i] = copyVal(f)
		}
		return c
	case Array:
		c := make(Array, len(v))
		for i, f := range v {
			c[i] = copyVal(f)
		}
		return c
	}
	return v
}

func intWidth(t types.Type) (w int, signed bool, ok bool) {
	b, isB := t.Underlying().(*types.Basic)
	if !isB {
		return 0, false, false
	}
	switch b.Kind() {
	case types.Int, types.Int64, types.UntypedInt, types.UntypedRune:
		return 64, true, true
	case types.Uint, types.Uint64, types.Uintptr:
		return 64, false, true
	case types.Int8:
		return 8, true, true
	case types.Uint8:
		return 8, false, true
	case types.Int16:
		return 16, true, true
	case types.Uint16:
		return 16, false, true
	case types.Int32:
		return 32, true, true
	case types.Uint32:
		return 32, false, true
	}
	return 0, false, false
}

// mkInt builds a twinned 64-bit word from an Int term with |value| < 2^bits.
func (in *Interp) mkInt(i *smt.Term, bits int) BV {
	if i.Op == "int" {
		return mkBV(64, i.Val)
	}
	if bits > 63 {
		bits = 63
	}
	return BV{W: 64, T: in.tb.Int2BV(64, i), I: i, IB: uint8(bits)}
}

func bitlen(v int64) int {
	if v < 0 {
		v = -(v + 1)
	}
	n := 0
	for v > 0 {
		n++
		v >>= 1
	}
	return n + 1
}

// intTwin returns the Int term and magnitude bound of a signed 64-bit word, if it has one.
func (in *Interp) intTwin(b BV) (*smt.Term, int, bool) {
	if b.W != 64 {
		return nil, 0, false
	}
	if b.T == nil {
		v := b.Signed()
		return in.tb.IntLit(v), bitlen(v), true
	}
	if b.I != nil {
		return b.I, int(b.IB), true
	}
	return nil, 0, false
}
