package sx

import (
	"fmt"
	"go/types"
	"os"

	"golang.org/x/tools/go/ssa"

	"verifh/internal/smt"
)

type mutexState struct {
	writer  bool
	readers int
	owner   int
}

func a0ptr(v Value) *Value { p, _ := v.(*Value); return p }

type poolState struct{ items []Value }

type onceState struct {
	done    bool
	running bool
}

type condState struct {
	waiters []*condWaiter
}
type condWaiter struct{ signaled bool }

type wgState struct{ n int64 }

func (in *Interp) mutexOf(p *Value) *mutexState {
	if p == nil {
		in.goPanic("runtime error: invalid memory address or nil pointer dereference (nil mutex)")
	}
	if s, ok := in.side[p].(*mutexState); ok {
		return s
	}
	s := &mutexState{}
	in.side[p] = s
	return s
}

func init() {
	reg := func(name string, f intrinsic) { intrinsics[name] = f }

	lock := func(in *Interp, fr *frame, a []Value) Value {
		m := in.mutexOf(a[0].(*Value))
		in.schedPoint("Lock")
		in.block("Lock", func() bool { return !m.writer && m.readers == 0 })
		m.writer = true
		m.owner = in.cur.id
		return nil
	}
	unlock := func(in *Interp, fr *frame, a []Value) Value {
		m := in.mutexOf(a[0].(*Value))
		if !m.writer {
			panic(targetPanic{Iface{T: types.Typ[types.String], V: Str{S: "fatal error: sync: unlock of unlocked mutex"}}})
		}
		m.writer = false
		in.schedPoint("Unlock")
		return nil
	}
	reg("(*sync.Mutex).Lock", lock)
	reg("(*sync.Mutex).Unlock", unlock)
	reg("(*sync.Mutex).TryLock", func(in *Interp, fr *frame, a []Value) Value {
		m := in.mutexOf(a[0].(*Value))
		in.schedPoint("TryLock")
		if m.writer || m.readers > 0 {
			return Bool{C: false}
		}
		m.writer = true
		return Bool{C: true}
	})
	reg("(*sync.RWMutex).Lock", lock)
	reg("(*sync.RWMutex).Unlock", unlock)
	reg("(*sync.RWMutex).RLock", func(in *Interp, fr *frame, a []Value) Value {
		m := in.mutexOf(a[0].(*Value))
		in.schedPoint("RLock")
		in.block("RLock", func() bool { return !m.writer })
		m.readers++
		return nil
	})
	reg("(*sync.RWMutex).RUnlock", func(in *Interp, fr *frame, a []Value) Value {
		m := in.mutexOf(a[0].(*Value))
		if m.readers <= 0 {
			panic(targetPanic{Iface{T: types.Typ[types.String], V: Str{S: "fatal error: sync: RUnlock of unlocked RWMutex"}}})
		}
		m.readers--
		in.schedPoint("RUnlock")
		return nil
	})

	reg("(*sync.Once).Do", func(in *Interp, fr *frame, a []Value) Value {
		p := a[0].(*Value)
		st, _ := in.side[p].(*onceState)
		if st == nil {
			st = &onceState{}
			in.side[p] = st
		}
		in.schedPoint("Once.Do")
		if st.done {
			return nil
		}
		if st.running {
			in.block("Once.Do", func() bool { return st.done })
			return nil
		}
		st.running = true
		func() {
			defer func() { st.done = true; st.running = false }()
			in.call(fr, a[1], nil)
		}()
		return nil
	})

	// sync.Pool: an object handed to Put may come back from any later Get (the runtime may also drop it): Get forks
	// between "the most recently pooled object" and "a new one" while the pool is non-empty.
	poolNew := func(in *Interp, fr *frame, p *Value) Value {
		if st, ok := (*p).(Struct); ok {
			for _, f := range st {
				switch fn := f.(type) {
				case *Closure:
					if fn != nil {
						return in.call(fr, fn, nil)
					}
				case *ssa.Function:
					if fn != nil {
						return in.call(fr, fn, nil)
					}
				}
			}
		}
		return Iface{}
	}
	reg("(*sync.Pool).Get", func(in *Interp, fr *frame, a []Value) Value {
		p := a[0].(*Value)
		if os.Getenv("GOSX_TRACE_POOL") != "" {
			st, _ := in.side[p].(*poolState)
			fmt.Fprintf(os.Stderr, "POOL.Get %p state=%v\n", p, st)
		}
		st, _ := in.side[p].(*poolState)
		if st != nil && len(st.items) > 0 && in.decideN(2, "pool:reuse") == 1 {
			v := st.items[len(st.items)-1]
			st.items = st.items[:len(st.items)-1]
			in.res.tag("pool:reused")
			return v
		}
		return poolNew(in, fr, p)
	})
	reg("(*sync.Pool).Put", func(in *Interp, fr *frame, a []Value) Value {
		p := a[0].(*Value)
		if os.Getenv("GOSX_TRACE_POOL") != "" {
			fmt.Fprintf(os.Stderr, "POOL.Put %p %T\n", p, a[1])
		}
		st, _ := in.side[p].(*poolState)
		if st == nil {
			st = &poolState{}
			in.side[p] = st
		}
		if x, ok := a[1].(Iface); ok && x.T == nil {
			return nil
		}
		st.items = append(st.items, a[1])
		return nil
	})

	reg("(*sync.Cond).Wait", func(in *Interp, fr *frame, a []Value) Value {
		p := a[0].(*Value)
		st, _ := in.side[p].(*condState)
		if st == nil {
			st = &condState{}
			in.side[p] = st
		}
		L := (*p).(Struct)[1].(Iface)
		w := &condWaiter{}
		st.waiters = append(st.waiters, w)
		in.callMethod(fr, L, "Unlock")
		in.block("Cond.Wait", func() bool { return w.signaled })
		in.callMethod(fr, L, "Lock")
		return nil
	})
	reg("(*sync.Cond).Signal", func(in *Interp, fr *frame, a []Value) Value {
		p := a[0].(*Value)
		in.schedPoint("Cond.Signal")
		if st, _ := in.side[p].(*condState); st != nil {
			for i, w := range st.waiters {
				if !w.signaled {
					w.signaled = true
					st.waiters = st.waiters[i+1:]
					break
				}
			}
		}
		return nil
	})
	reg("(*sync.Cond).Broadcast", func(in *Interp, fr *frame, a []Value) Value {
		p := a[0].(*Value)
		in.schedPoint("Cond.Broadcast")
		if st, _ := in.side[p].(*condState); st != nil {
			for _, w := range st.waiters {
				w.signaled = true
			}
			st.waiters = nil
		}
		return nil
	})

	wg := func(in *Interp, p *Value) *wgState {
		st, _ := in.side[p].(*wgState)
		if st == nil {
			st = &wgState{}
			in.side[p] = st
		}
		return st
	}
	reg("(*sync.WaitGroup).Add", func(in *Interp, fr *frame, a []Value) Value {
		st := wg(in, a[0].(*Value))
		st.n += in.concInt(a[1], "WaitGroup delta")
		if st.n < 0 {
			in.goPanic("sync: negative WaitGroup counter")
		}
		in.schedPoint("WaitGroup.Add")
		return nil
	})
	reg("(*sync.WaitGroup).Done", func(in *Interp, fr *frame, a []Value) Value {
		st := wg(in, a[0].(*Value))
		st.n--
		if st.n < 0 {
			in.goPanic("sync: negative WaitGroup counter")
		}
		in.schedPoint("WaitGroup.Done")
		return nil
	})
	reg("(*sync.WaitGroup).Wait", func(in *Interp, fr *frame, a []Value) Value {
		st := wg(in, a[0].(*Value))
		in.schedPoint("WaitGroup.Wait")
		in.block("WaitGroup.Wait", func() bool { return st.n == 0 })
		return nil
	})

	// unsafe.Pointer-valued atomics (atomic.Pointer[T] is interpreted from source on top of these)
	reg("sync/atomic.LoadPointer", func(in *Interp, fr *frame, a []Value) Value {
		in.schedPoint("atomic.Load")
		return *(a[0].(*Value))
	})
	reg("sync/atomic.StorePointer", func(in *Interp, fr *frame, a []Value) Value {
		in.schedPoint("atomic.Store")
		*(a[0].(*Value)) = a[1]
		return nil
	})
	reg("sync/atomic.SwapPointer", func(in *Interp, fr *frame, a []Value) Value {
		in.schedPoint("atomic.Swap")
		p := a[0].(*Value)
		old := *p
		*p = a[1]
		return old
	})
	reg("sync/atomic.CompareAndSwapPointer", func(in *Interp, fr *frame, a []Value) Value {
		in.schedPoint("atomic.CAS")
		p := a[0].(*Value)
		cur, _ := (*p).(UnsafePtr)
		old, _ := a[1].(UnsafePtr)
		if cur.P == old.P {
			*p = a[2]
			return Bool{C: true}
		}
		return Bool{C: false}
	})
	// atomic.Value: the real implementation reinterprets interface words through unsafe; modelled as a cell
	avCell := func(in *Interp, v Value) *Iface {
		p := a0ptr(v)
		c, _ := in.side[p].(*Iface)
		if c == nil {
			c = &Iface{}
			in.side[p] = c
		}
		return c
	}
	reg("(*sync/atomic.Value).Load", func(in *Interp, fr *frame, a []Value) Value {
		in.schedPoint("atomic.Load")
		return *avCell(in, a[0])
	})
	reg("(*sync/atomic.Value).Store", func(in *Interp, fr *frame, a []Value) Value {
		in.schedPoint("atomic.Store")
		v := a[1].(Iface)
		if v.T == nil {
			in.goPanic("sync/atomic: store of nil value into Value")
		}
		c := avCell(in, a[0])
		if c.T != nil && !types.Identical(c.T, v.T) {
			in.goPanic("sync/atomic: store of inconsistently typed value into Value")
		}
		*c = v
		return nil
	})
	reg("(*sync/atomic.Value).Swap", func(in *Interp, fr *frame, a []Value) Value {
		in.schedPoint("atomic.Swap")
		v := a[1].(Iface)
		if v.T == nil {
			in.goPanic("sync/atomic: swap of nil value into Value")
		}
		c := avCell(in, a[0])
		old := *c
		*c = v
		return old
	})

	// sync/atomic free functions (typed wrappers are interpreted from source)
	for _, w := range []struct {
		suffix string
		bits   int
	}{{"Int32", 32}, {"Int64", 64}, {"Uint32", 32}, {"Uint64", 64}, {"Uintptr", 64}} {
		w := w
		reg("sync/atomic.Add"+w.suffix, func(in *Interp, fr *frame, a []Value) Value {
			p := a[0].(*Value)
			in.schedPoint("atomic.Add")
			nv := in.bvBinop(tokenADD, true, (*p).(BV), a[1].(BV), nil).(BV)
			*p = nv
			return nv
		})
		reg("sync/atomic.Load"+w.suffix, func(in *Interp, fr *frame, a []Value) Value {
			in.schedPoint("atomic.Load")
			return *(a[0].(*Value))
		})
		reg("sync/atomic.Store"+w.suffix, func(in *Interp, fr *frame, a []Value) Value {
			in.schedPoint("atomic.Store")
			*(a[0].(*Value)) = a[1]
			return nil
		})
		reg("sync/atomic.Swap"+w.suffix, func(in *Interp, fr *frame, a []Value) Value {
			in.schedPoint("atomic.Swap")
			p := a[0].(*Value)
			old := *p
			*p = a[1]
			return old
		})
		reg("sync/atomic.CompareAndSwap"+w.suffix, func(in *Interp, fr *frame, a []Value) Value {
			in.schedPoint("atomic.CAS")
			p := a[0].(*Value)
			eq := in.equals(nil, *p, a[1])
			ok := eq.C
			if eq.T != nil {
				ok = in.decide([]*smt.Term{eq.T, in.tb.Not(eq.T)}, "if") == 0
			}
			if ok {
				*p = a[2]
			}
			return Bool{C: ok}
		})
	}
}

// callMethod invokes a niladic method on an interface value.
func (in *Interp) callMethod(fr *frame, recv Iface, name string, args ...Value) Value {
	if recv.T == nil {
		in.goPanic("runtime error: invalid memory address or nil pointer dereference")
	}
	ms := in.prog.MethodSets.MethodSet(recv.T)
	sel := ms.Lookup(nil, name)
	if sel == nil {
		// unexported or missing
		for i := 0; i < ms.Len(); i++ {
			if ms.At(i).Obj().Name() == name {
				sel = ms.At(i)
			}
		}
	}
	if sel == nil {
		panic(fmt.Sprintf("callMethod: %v has no method %s", recv.T, name))
	}
	f := in.prog.MethodValue(sel)
	return in.call(fr, f, append([]Value{recv.V}, args...))
}
