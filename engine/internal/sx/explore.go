package sx

import (
	"fmt"
	"os"
	"runtime/debug"
	"sort"
	"strings"
	"sync"
	"time"

	"golang.org/x/tools/go/packages"
	"golang.org/x/tools/go/ssa"
	"golang.org/x/tools/go/ssa/ssautil"

	"verifh/internal/smt"
)

// Config describes one harness run.
type Config struct {
	Dir          string            // module dir to load from (/verif/engine)
	Patterns     []string          // package patterns
	Overlay      map[string][]byte // virtual files
	EntryPkg     string            // package path containing the harness
	Entry        string            // harness function name
	RepoPrefixes []string          // package path prefixes whose code is "the repo" (init run, functions_encoded)
	Allowed      []string          // dependency packages interpreted from source
	MaxSteps     int
	MaxSplit     int
	PreemptBound int
	// FreeSwitchBound > 0 bounds the non-default choices made when the running thread blocks or ends (0: all explored)
	FreeSwitchBound int
	Workers         int
	TimeoutMs       int
	MaxPaths        int
	KnownIDs        map[string]bool
	Deadline        time.Time
	Verbose         bool
	Pin             map[string]uint64 // concrete re-execution: input variable values
	PinDecisions    []int
	Params          map[string]int
	CrossEvery      int // re-decide one in CrossEvery assertion verdicts with cvc5 and z3 5.1 (0: off)
	CrossMax        int // at most this many re-decided verdicts per harness
	Seed            int
}

func (c *Config) isRepoPkg(path string) bool {
	for _, p := range c.RepoPrefixes {
		if path == p || strings.HasPrefix(path, p+"/") || strings.HasPrefix(path, p) && strings.HasSuffix(p, "/") {
			return true
		}
	}
	return false
}

var defaultAllowed = []string{
	"errors", "container/list", "sort", "strings", "bytes", "unicode/utf8", "unicode", "math/bits", "math",
	"crypto/subtle", "context", "sync/atomic", "sync", "io", "bufio", "strconv", "slices", "cmp", "maps",
	"internal/bytealg", "internal/byteorder", "encoding/binary", "encoding/base64", "hash/fnv", "hash/maphash", "hash",
	"github.com/pkg/errors", "github.com/awnumar/memcall", "github.com/awnumar/memguard", "github.com/awnumar/memguard/core",
	"github.com/aws/aws-sdk-go/aws", "github.com/aws/aws-sdk-go-v2/aws",
	"internal/godebug", "unsafe", "internal/itoa", "internal/stringslite",
	"google.golang.org/protobuf", "google.golang.org/grpc/codes", "google.golang.org/grpc/status",
}

func (c *Config) allowed(path string) bool {
	for _, p := range c.Allowed {
		if path == p || strings.HasPrefix(path, p+"/") {
			return true
		}
	}
	for _, p := range defaultAllowed {
		if path == p {
			return true
		}
	}
	return false
}

// Program is a loaded, fully built SSA program (shared read-only by all workers).
type Program struct {
	Prog  *ssa.Program
	Entry *ssa.Function
	Pkgs  []*packages.Package
	LoadS float64
}

func Load(cfg *Config) (*Program, error) {
	t0 := time.Now()
	pc := &packages.Config{
		Mode:    packages.NeedName | packages.NeedFiles | packages.NeedCompiledGoFiles | packages.NeedImports | packages.NeedDeps | packages.NeedTypes | packages.NeedTypesSizes | packages.NeedSyntax | packages.NeedTypesInfo | packages.NeedModule,
		Dir:     cfg.Dir,
		Overlay: cfg.Overlay,
		Env:     append(os.Environ(), "GOFLAGS=-mod=mod", "GOPROXY=off", "GOSUMDB=off", "GOTOOLCHAIN=local", "GOWORK=off"),
	}
	pkgs, err := packages.Load(pc, cfg.Patterns...)
	if err != nil {
		return nil, err
	}
	var errs []string
	packages.Visit(pkgs, nil, func(p *packages.Package) {
		for _, e := range p.Errors {
			errs = append(errs, e.Error())
		}
	})
	if len(errs) > 0 {
		return nil, fmt.Errorf("HARNESS-BUILD-FAILED: %s", strings.Join(errs, "\n"))
	}
	prog, _ := ssautil.AllPackages(pkgs, ssa.InstantiateGenerics)
	prog.Build()
	var entry *ssa.Function
	for _, p := range prog.AllPackages() {
		if p.Pkg.Path() == cfg.EntryPkg {
			entry = p.Func(cfg.Entry)
		}
	}
	if entry == nil {
		return nil, fmt.Errorf("HARNESS-BUILD-FAILED: entry %s.%s not found", cfg.EntryPkg, cfg.Entry)
	}
	return &Program{Prog: prog, Entry: entry, Pkgs: pkgs, LoadS: time.Since(t0).Seconds()}, nil
}

// Explorer runs all paths of one harness.
type Explorer struct {
	unlisted int // violations not covered by a listed known class
	cfg      *Config
	P        *Program
	mu       sync.Mutex
	work     [][]decision
	busy     int
	cond     *sync.Cond

	// aggregate
	Paths        int
	Infeasible   int
	Inconclusive []string
	Violations   []Violation
	Reach        map[string]int
	Stubs        map[string]int
	Notes        map[string]int
	FnStats      map[string]int
	Queries      int
	Obligations  int
	Decisions    int
	UnknownFeas  int
	Switches     int
	AssertsSym   int
	AssertsConc  int
	Steps        int64
	Samples      []map[string]interface{}
	PassingPaths []Violation // sampled completed paths without violations, with a model: replayed natively for agreement
	Solver       smt.Stats
	Wall         float64
	stop         bool
	threadExit   chan struct{}
	assertSeq    int64
	crossDone    int64
}

func NewExplorer(cfg *Config, p *Program) *Explorer {
	ex := &Explorer{cfg: cfg, P: p, Reach: map[string]int{}, Stubs: map[string]int{}, Notes: map[string]int{}, FnStats: map[string]int{}}
	ex.cond = sync.NewCond(&ex.mu)
	return ex
}

func (ex *Explorer) pushWork(in *Interp, p []decision) {
	in.localWork = append(in.localWork, p)
}

func (ex *Explorer) Run() {
	t0 := time.Now()
	n := ex.cfg.Workers
	if n <= 0 {
		n = 1
	}
	ex.work = [][]decision{nil}
	if ex.cfg.PinDecisions != nil {
		n = 1
	}
	var wg sync.WaitGroup
	for i := 0; i < n; i++ {
		wg.Add(1)
		go func(id int) {
			defer wg.Done()
			ex.worker(id)
		}(i)
	}
	wg.Wait()
	ex.Wall = time.Since(t0).Seconds()
}

// take returns the next prefix (blocking until work appears or everything is done).
func (ex *Explorer) take() ([]decision, bool) {
	ex.mu.Lock()
	defer ex.mu.Unlock()
	for {
		if ex.stop {
			return nil, false
		}
		if n := len(ex.work); n > 0 {
			p := ex.work[n-1]
			ex.work = ex.work[:n-1]
			ex.busy++
			return p, true
		}
		if ex.busy == 0 {
			ex.cond.Broadcast()
			return nil, false
		}
		ex.cond.Wait()
	}
}

func (ex *Explorer) worker(id int) {
	tb := smt.NewTable()
	sol, err := smt.NewSolver("z3", ex.cfg.TimeoutMs)
	if err != nil {
		ex.mu.Lock()
		ex.Inconclusive = append(ex.Inconclusive, "cannot start solver: "+err.Error())
		ex.mu.Unlock()
		return
	}
	defer sol.Close()
	if lp := os.Getenv("GOSX_LOG"); lp != "" {
		if f, err := os.Create(fmt.Sprintf("%s.%d", lp, id)); err == nil {
			sol.Log = f
			defer f.Close()
		}
	}
	in := &Interp{prog: ex.P.Prog, tb: tb, sol: sol, cfg: ex.cfg, ex: ex, fnStats: map[*ssa.Function]int{}}
	var prevLog []decision
	for {
		var prefix []decision
		if n := len(in.localWork); n > 0 {
			prefix = in.localWork[n-1]
			in.localWork = in.localWork[:n-1]
		} else {
			p, ok := ex.take()
			if !ok {
				break
			}
			prefix = p
			in.holding = true
		}
		// donate surplus local work (shallowest first) so other workers get busy
		if len(in.localWork) > 1 {
			ex.mu.Lock()
			if len(ex.work) < ex.cfg.Workers {
				ex.work = append(ex.work, in.localWork[0])
				in.localWork = in.localWork[1:]
				ex.cond.Signal()
			}
			ex.mu.Unlock()
		}
		res := in.runPath(prefix, prevLog)
		prevLog = res.Log
		ex.merge(in, res)
		if len(in.localWork) == 0 && in.holding {
			in.holding = false
			ex.mu.Lock()
			ex.busy--
			ex.cond.Broadcast()
			ex.mu.Unlock()
		}
		if !ex.cfg.Deadline.IsZero() && time.Now().After(ex.cfg.Deadline) {
			ex.mu.Lock()
			if !ex.stop {
				ex.stop = true
				ex.Inconclusive = append(ex.Inconclusive, "wall-clock budget exhausted before the frontier was empty")
			}
			ex.cond.Broadcast()
			ex.mu.Unlock()
		}
		ex.mu.Lock()
		stop := ex.stop
		ex.mu.Unlock()
		if stop {
			break
		}
	}
	if in.holding {
		ex.mu.Lock()
		ex.busy--
		ex.cond.Broadcast()
		ex.mu.Unlock()
	}
	ex.mu.Lock()
	ex.Solver.Sat += sol.Stats.Sat
	ex.Solver.Unsat += sol.Stats.Unsat
	ex.Solver.Unknown += sol.Stats.Unknown
	ex.Solver.Errors += sol.Stats.Errors
	ex.Solver.Time += sol.Stats.Time
	for f, n := range in.fnStats {
		ex.FnStats[f.String()] += n
	}
	ex.mu.Unlock()
}

const maxUnlistedViolations = 40

func (ex *Explorer) merge(in *Interp, r *PathResult) {
	ex.mu.Lock()
	defer ex.mu.Unlock()
	ex.Paths++
	switch r.Status {
	case "infeasible":
		ex.Infeasible++
		ex.Notes["infeasible:"+r.Reason]++
	case "inconclusive":
		if len(ex.Inconclusive) < 20 {
			ex.Inconclusive = append(ex.Inconclusive, r.Reason)
		}
	}
	ex.Violations = append(ex.Violations, r.Violations...)
	for _, v := range r.Violations {
		if v.Known == "" {
			ex.unlisted++
		}
	}
	// enough counterexamples: the verdict is VIOLATION whatever the rest of the frontier holds (violations of a
	// listed known class do not count, so the unchanged tree is always explored to the end)
	if ex.unlisted >= maxUnlistedViolations && !ex.stop {
		ex.stop = true
		ex.Notes["stopped_after_violations"]++
		ex.cond.Broadcast()
	}
	if r.Status == "ok" {
		for k := range r.Reach {
			ex.Reach[k]++
		}
	}
	for k, v := range r.Stubs {
		ex.Stubs[k] += v
	}
	for k, v := range r.Notes {
		ex.Notes[k] += v
	}
	ex.Queries += r.Queries
	ex.Obligations += r.Obligations
	ex.Decisions += r.Decisions
	ex.UnknownFeas += r.UnknownFeas
	ex.Switches += r.Switches
	ex.AssertsSym += r.AssertsSym
	ex.AssertsConc += r.AssertsConc
	ex.Steps += int64(r.Steps)
	if len(ex.Samples) < 3 && r.Status == "ok" {
		dv := make([]int, len(r.Log))
		for i, d := range r.Log {
			dv[i] = d.Chosen
		}
		ex.Samples = append(ex.Samples, map[string]interface{}{"harness": ex.cfg.Entry, "decisions": dv, "tags": r.Tags, "model": r.Sample, "steps": r.Steps})
		var reached []string
		for k := range r.Reach {
			reached = append(reached, k)
		}
		ex.PassingPaths = append(ex.PassingPaths, Violation{Harness: ex.cfg.Entry, Kind: "pass", Decisions: dv, Choices: r.SampleCh, Model: r.SampleFull, Tags: reached})
	}
	if ex.cfg.MaxPaths > 0 && ex.Paths >= ex.cfg.MaxPaths && !ex.stop {
		ex.stop = true
		ex.Inconclusive = append(ex.Inconclusive, fmt.Sprintf("path budget %d exhausted before the frontier was empty", ex.cfg.MaxPaths))
		ex.cond.Broadcast()
	}
	if ex.cfg.Verbose && ex.Paths%200 == 0 {
		fmt.Fprintf(os.Stderr, "  [%s] paths=%d queue=%d viol=%d\n", ex.cfg.Entry, ex.Paths, len(ex.work), len(ex.Violations))
	}
}

// runPath executes the harness once under the decision prefix.
func (in *Interp) runPath(prefix, prevLog []decision) (res *PathResult) {
	res = &PathResult{Status: "ok", Reach: map[string]bool{}, Stubs: map[string]int{}, Notes: map[string]int{}}
	in.res = res
	in.prefix = prefix
	in.log = in.log[:0]
	in.pc = in.pc[:0]
	in.inputs = nil
	in.inputSeen = map[*smt.Term]bool{}
	in.steps = 0
	in.globals = map[*ssa.Global]*Value{}
	in.initDone = map[*ssa.Package]bool{}
	in.side = map[*Value]interface{}{}
	in.names = map[string]int{}
	in.m = newModels()
	in.threads = nil
	in.cur = nil
	in.pending = nil
	in.killed = false
	in.preempts = 0
	in.freeSwitches = 0

	// synchronise the solver with the new prefix (level 1 is the per-path base frame)
	if in.sol.LastErr != "" {
		in.sol.Restart()
		in.sol.LastErr = ""
		prevLog = nil
	}
	if prevLog != nil && len(prefix) > 0 {
		common := 0
		for common < len(prevLog) && common < len(prefix)-1 && prevLog[common] == prefix[common] {
			common++
		}
		level := 1
		for _, d := range prevLog[:common] {
			if d.Pushes {
				level++
			}
		}
		in.sol.Pop(in.sol.Level - level)
		in.silent, in.live = common, false
	} else {
		in.sol.Pop(in.sol.Level)
		in.sol.Push()
		in.silent, in.live = -1, true
	}

	main := in.newThread(nil, nil)
	main.started = true
	in.cur = main

	r := in.protect(func() {
		in.ensureInit(in.ex.P.Entry.Pkg)
		in.call(nil, in.ex.P.Entry, nil)
	})
	in.finishPath(r, res)
	in.killThreads()
	res.Steps = in.steps
	res.Log = append([]decision{}, in.log...)
	res.Tags = append(append([]string{}, in.m.tags...), res.Tags...)
	return res
}

func (in *Interp) finishPath(r interface{}, res *PathResult) {
	defer func() {
		if x := recover(); x != nil {
			res.Status = "inconclusive"
			res.Reason = fmt.Sprintf("engine fault while closing path: %v\n%s", x, debug.Stack())
		}
	}()
	switch x := r.(type) {
	case nil, pathEnd:
		// path ended normally: sample model (also proves the path condition satisfiable)
		if len(res.Violations) == 0 && len(in.ex.Samples) < 3 {
			if rr, model := in.sol.CheckModel(in.modelVars()); rr == smt.Sat {
				res.Sample = trimModel(model)
				res.SampleFull = model
				res.SampleCh = in.choiceVector()
			}
		}
	case pathAbort:
		if len(res.Violations) == 0 {
			res.Status = "infeasible"
		}
		res.Reason = x.reason
	case inconclusive:
		res.Status = "inconclusive"
		res.Reason = x.reason + " [" + in.ex.cfg.Entry + " decisions=" + fmt.Sprint(in.decisionVector()) + "]"
	case targetPanic:
		msg := in.panicMessage(x.v)
		label := "panic"
		in.protectReport(func() { in.reportViolation("panic", label, msg, nil, nil) }, res)
	case goroutinePanic:
		msg := in.panicMessage(x.tp.v)
		in.protectReport(func() { in.reportViolation("goroutine-panic", "panic", msg, nil, nil) }, res)
	case deadlock:
		in.protectReport(func() { in.reportViolation("deadlock", "deadlock", x.what, nil, nil) }, res)
	default:
		res.Status = "inconclusive"
		res.Reason = fmt.Sprintf("unexpected sentinel %T", r)
	}
}

func (in *Interp) protectReport(f func(), res *PathResult) {
	r := in.protect(f)
	if r != nil {
		res.Status = "inconclusive"
		if ic, ok := r.(inconclusive); ok {
			res.Reason = ic.reason
		} else {
			res.Reason = fmt.Sprintf("%v", r)
		}
	}
}

func (in *Interp) panicMessage(v Value) string {
	switch v := v.(type) {
	case Iface:
		if v.T == nil {
			return "nil"
		}
		r := in.protect(func() {})
		_ = r
		var s string
		rr := in.protect(func() { s = in.formatArg(nil, 'v', v).String() })
		if rr != nil {
			return v.T.String()
		}
		return s
	case Str:
		return v.String()
	}
	return fmt.Sprintf("%T", v)
}

func trimModel(m map[string]string) map[string]string {
	if len(m) <= 24 {
		return m
	}
	keys := make([]string, 0, len(m))
	for k := range m {
		keys = append(keys, k)
	}
	sort.Strings(keys)
	out := map[string]string{}
	for _, k := range keys[:24] {
		out[k] = m[k]
	}
	return out
}
