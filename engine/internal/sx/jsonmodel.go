package sx

import (
	"bytes"
	"encoding/base64"
	"encoding/json"
	"fmt"
	"go/types"
	"reflect"
	"sort"
	"strconv"
	"strings"

	"verifh/internal/smt"
)

// Tag-driven abstract JSON (DESIGN §3): Marshal walks a value by the struct tags of the tree under test
// into an abstract tree and returns an opaque byte token; Unmarshal maps such a tree onto the destination
// type by encoding/json's field-matching rule. Bytes that are not a token are reported as a syntax error.

type jnode struct {
	kind   byte // o a s n b z(null) y(bytes)
	names  []string
	fields []*jnode
	elems  []*jnode
	val    Value
}

const jsonTokenPrefix = "\x7fJSON#"

func (in *Interp) jsonToken(n *jnode) Slice {
	id := len(in.m.jsonDocs)
	in.m.jsonDocs = append(in.m.jsonDocs, n)
	s := jsonTokenPrefix + strconv.Itoa(id) + "\x7f"
	out := make([]Value, len(s))
	for i := 0; i < len(s); i++ {
		out[i] = mkBV(8, uint64(s[i]))
	}
	return Slice{A: out}
}

func (in *Interp) jsonFromToken(b Slice) *jnode {
	var sb strings.Builder
	for _, e := range b.A {
		bv := e.(BV)
		if bv.T != nil {
			return nil
		}
		sb.WriteByte(byte(bv.C))
	}
	s := sb.String()
	if !strings.HasPrefix(s, jsonTokenPrefix) || !strings.HasSuffix(s, "\x7f") {
		return nil
	}
	id, err := strconv.Atoi(s[len(jsonTokenPrefix) : len(s)-1])
	if err != nil || id < 0 || id >= len(in.m.jsonDocs) {
		return nil
	}
	return in.m.jsonDocs[id]
}

func parseJSONTag(f *types.Var, tag string) (name string, omitempty, skip bool) {
	name = f.Name()
	t := reflect.StructTag(tag).Get("json")
	if t == "-" {
		return "", false, true
	}
	parts := strings.Split(t, ",")
	if parts[0] != "" {
		name = parts[0]
	}
	for _, p := range parts[1:] {
		if p == "omitempty" {
			omitempty = true
		}
	}
	return name, omitempty, false
}

// isEmptyJSON decides encoding/json's "empty value" test; symbolic scalars fork.
func (in *Interp) isEmptyJSON(v Value) bool {
	switch v := v.(type) {
	case Bool:
		if v.T == nil {
			return !v.C
		}
		return in.decide([]*smt.Term{in.tb.Not(v.T), v.T}, "if") == 0
	case BV:
		if v.T == nil {
			return v.C == 0
		}
		z := in.boolTerm(in.eqBV(v, mkBV(int(v.W), 0)))
		return in.decide([]*smt.Term{z, in.tb.Not(z)}, "if") == 0
	case Str:
		if !v.IsConc() {
			for _, g := range v.Segs {
				if g.Itoa != nil || g.B64 != nil || g.isLit() && g.Lit != "" {
					return false
				}
			}
			panic(inconclusive{"omitempty on a symbolic string"})
		}
		return v.S == ""
	case *Value:
		return v == nil
	case Slice:
		return len(v.A) == 0
	case *Map:
		return v == nil || v.N == 0
	case Iface:
		return v.T == nil
	case Float:
		return v.F == 0
	}
	return false
}

func (in *Interp) jsonMarshal(t types.Type, v Value) *jnode {
	if it, ok := v.(Iface); ok {
		if it.T == nil {
			return &jnode{kind: 'z'}
		}
		return in.jsonMarshal(it.T, it.V)
	}
	if isTimeType(t) {
		panic(inconclusive{"json.Marshal of time.Time"})
	}
	switch u := t.Underlying().(type) {
	case *types.Pointer:
		p := v.(*Value)
		if p == nil {
			return &jnode{kind: 'z'}
		}
		return in.jsonMarshal(u.Elem(), *p)
	case *types.Struct:
		n := &jnode{kind: 'o'}
		in.jsonStructFields(u, v.(Struct), n)
		return n
	case *types.Slice:
		s := v.(Slice)
		if b, ok := u.Elem().Underlying().(*types.Basic); ok && b.Kind() == types.Uint8 {
			if s.Nil {
				return &jnode{kind: 'z'}
			}
			cp := make([]Value, len(s.A))
			copy(cp, s.A)
			return &jnode{kind: 'y', val: Slice{A: cp}}
		}
		if s.Nil {
			return &jnode{kind: 'z'}
		}
		n := &jnode{kind: 'a'}
		for _, e := range s.A {
			n.elems = append(n.elems, in.jsonMarshal(u.Elem(), e))
		}
		return n
	case *types.Array:
		n := &jnode{kind: 'a'}
		for _, e := range v.(Array) {
			n.elems = append(n.elems, in.jsonMarshal(u.Elem(), e))
		}
		return n
	case *types.Map:
		m := v.(*Map)
		if m == nil {
			return &jnode{kind: 'z'}
		}
		n := &jnode{kind: 'o'}
		type kv struct {
			k string
			v Value
		}
		var kvs []kv
		for _, e := range m.Entries {
			if e.deleted {
				continue
			}
			ks, ok := e.K.(Str)
			if !ok || !ks.IsConc() {
				panic(inconclusive{"json.Marshal of a map with non-constant-string keys"})
			}
			kvs = append(kvs, kv{ks.S, e.V})
		}
		sort.Slice(kvs, func(i, j int) bool { return kvs[i].k < kvs[j].k })
		for _, e := range kvs {
			n.names = append(n.names, e.k)
			n.fields = append(n.fields, in.jsonMarshal(u.Elem(), e.v))
		}
		return n
	case *types.Basic:
		switch {
		case u.Info()&types.IsString != 0:
			return &jnode{kind: 's', val: v}
		case u.Info()&types.IsBoolean != 0:
			return &jnode{kind: 'b', val: v}
		case u.Info()&types.IsNumeric != 0:
			return &jnode{kind: 'n', val: v}
		}
	case *types.Interface:
		return &jnode{kind: 'z'}
	}
	panic(inconclusive{fmt.Sprintf("json.Marshal of %s", t)})
}

func (in *Interp) jsonStructFields(st *types.Struct, sv Struct, n *jnode) {
	for i := 0; i < st.NumFields(); i++ {
		f := st.Field(i)
		if f.Embedded() && reflect.StructTag(st.Tag(i)).Get("json") == "" {
			ft := f.Type()
			fv := sv[i]
			if p, ok := ft.Underlying().(*types.Pointer); ok {
				pv := fv.(*Value)
				if pv == nil {
					continue
				}
				ft, fv = p.Elem(), *pv
			}
			if est, ok := ft.Underlying().(*types.Struct); ok {
				in.jsonStructFields(est, fv.(Struct), n)
				continue
			}
		}
		if !f.Exported() {
			continue
		}
		name, omit, skip := parseJSONTag(f, st.Tag(i))
		if skip {
			continue
		}
		if omit && in.isEmptyJSON(sv[i]) {
			continue
		}
		fv := sv[i]
		if b, isBool := fv.(Bool); isBool && omit && b.T != nil {
			fv = Bool{C: true} // a non-empty bool is true on this path
		}
		n.names = append(n.names, name)
		n.fields = append(n.fields, in.jsonMarshal(f.Type(), fv))
	}
}

func (n *jnode) shape() string {
	switch n.kind {
	case 'o':
		var sb strings.Builder
		sb.WriteByte('{')
		for i, name := range n.names {
			if i > 0 {
				sb.WriteByte(',')
			}
			sb.WriteString(strconv.Quote(name) + ":" + n.fields[i].shape())
		}
		sb.WriteByte('}')
		return sb.String()
	case 'a':
		var sb strings.Builder
		sb.WriteByte('[')
		for i, e := range n.elems {
			if i > 0 {
				sb.WriteByte(',')
			}
			sb.WriteString(e.shape())
		}
		sb.WriteByte(']')
		return sb.String()
	case 's':
		return "#string"
	case 'n':
		return "#number"
	case 'b':
		if b, ok := n.val.(Bool); ok && b.T == nil {
			return strconv.FormatBool(b.C)
		}
		return "#bool"
	case 'y':
		return "#base64"
	}
	return "null"
}

// jsonUnmarshal maps node onto *p of type t (encoding/json rules: exact tag/name match first, then case-insensitive).
func (in *Interp) jsonUnmarshal(n *jnode, t types.Type, p *Value) string {
	if n.kind == 'z' {
		switch t.Underlying().(type) {
		case *types.Pointer, *types.Slice, *types.Map, *types.Interface:
			*p = in.zero(t)
		}
		return ""
	}
	switch u := t.Underlying().(type) {
	case *types.Pointer:
		pv := (*p).(*Value)
		if pv == nil {
			nv := in.zero(u.Elem())
			pv = &nv
			*p = pv
		}
		return in.jsonUnmarshal(n, u.Elem(), pv)
	case *types.Struct:
		if n.kind != 'o' {
			return "json: cannot unmarshal non-object into Go struct"
		}
		sv := (*p).(Struct)
		for i, name := range n.names {
			idx := in.jsonFindField(u, name)
			if idx < 0 {
				continue
			}
			if e := in.jsonUnmarshal(n.fields[i], u.Field(idx).Type(), &sv[idx]); e != "" {
				return e
			}
		}
		return ""
	case *types.Slice:
		if b, ok := u.Elem().Underlying().(*types.Basic); ok && b.Kind() == types.Uint8 {
			switch n.kind {
			case 'y':
				src := n.val.(Slice)
				cp := make([]Value, len(src.A))
				copy(cp, src.A)
				*p = Slice{A: cp}
				return ""
			case 's':
				if sv, ok := n.val.(Str); ok && sv.IsConc() {
					raw, err := base64.StdEncoding.DecodeString(sv.S)
					if err != nil {
						return "illegal base64 data in JSON string"
					}
					out := make([]Value, len(raw))
					for i, c := range raw {
						out[i] = mkBV(8, uint64(c))
					}
					*p = Slice{A: out}
					return ""
				}
				panic(inconclusive{"json.Unmarshal of a JSON string into []byte (base64 decoding of non-model text)"})
			}
			return "json: cannot unmarshal into []byte"
		}
		if n.kind != 'a' {
			return "json: cannot unmarshal non-array into Go slice"
		}
		out := make([]Value, len(n.elems))
		for i, e := range n.elems {
			out[i] = in.zero(u.Elem())
			if er := in.jsonUnmarshal(e, u.Elem(), &out[i]); er != "" {
				return er
			}
		}
		*p = Slice{A: out}
		return ""
	case *types.Basic:
		switch {
		case u.Info()&types.IsString != 0:
			if n.kind != 's' {
				return "json: cannot unmarshal non-string into Go string"
			}
			*p = n.val
		case u.Info()&types.IsBoolean != 0:
			if n.kind != 'b' {
				return "json: cannot unmarshal non-bool into Go bool"
			}
			*p = n.val
		case u.Info()&types.IsInteger != 0:
			if n.kind != 'n' {
				return "json: cannot unmarshal non-number into Go integer"
			}
			w, _, _ := intWidth(t)
			b, ok := n.val.(BV)
			if !ok {
				return "json: cannot unmarshal float into Go integer"
			}
			if int(b.W) != w {
				panic(inconclusive{"json.Unmarshal across integer widths"})
			}
			*p = b
		default:
			panic(inconclusive{"json.Unmarshal into " + t.String()})
		}
		return ""
	}
	panic(inconclusive{"json.Unmarshal into " + t.String()})
}

func (in *Interp) jsonFindField(st *types.Struct, name string) int {
	fold := -1
	for i := 0; i < st.NumFields(); i++ {
		f := st.Field(i)
		if !f.Exported() {
			continue
		}
		fn, _, skip := parseJSONTag(f, st.Tag(i))
		if skip {
			continue
		}
		if fn == name {
			return i
		}
		if fold < 0 && strings.EqualFold(fn, name) {
			fold = i
		}
	}
	return fold
}

func init() {
	intrinsics["encoding/json.Marshal"] = func(in *Interp, fr *frame, a []Value) Value {
		it := a[0].(Iface)
		n := in.jsonMarshal(it.T, it.V)
		return Tuple{in.jsonToken(n), nilError()}
	}
	intrinsics["encoding/json.Unmarshal"] = func(in *Interp, fr *frame, a []Value) Value {
		data := a[0].(Slice)
		dst := a[1].(Iface)
		n := in.jsonFromToken(data)
		if n == nil {
			// concrete text (a row written by something else, a corrupted column): parsed for real
			txt, conc := concreteBytes(data)
			if !conc {
				return in.errorValue("invalid character in JSON input (not produced by the JSON model)")
			}
			var perr string
			n, perr = jsonParseText(txt)
			if n == nil {
				return in.errorValue(perr)
			}
		}
		pt, ok := dst.T.Underlying().(*types.Pointer)
		if !ok || dst.V.(*Value) == nil {
			return in.errorValue("json: Unmarshal(non-pointer or nil)")
		}
		if e := in.jsonUnmarshal(n, pt.Elem(), dst.V.(*Value)); e != "" {
			return in.errorValue(e)
		}
		return nilError()
	}
	intrinsics["verifh/vx.JSONShape"] = func(in *Interp, fr *frame, a []Value) Value {
		n := in.jsonFromToken(a[0].(Slice))
		if n == nil {
			return Str{S: "<not-json>"}
		}
		return Str{S: n.shape()}
	}
}

func concreteBytes(b Slice) ([]byte, bool) {
	out := make([]byte, len(b.A))
	for i, e := range b.A {
		bv, ok := e.(BV)
		if !ok || bv.T != nil {
			return nil, false
		}
		out[i] = byte(bv.C)
	}
	return out, true
}

// jsonParseText parses concrete JSON text with the host's decoder (member order and duplicates preserved) into the
// model's tree; the error text is the host's.
func jsonParseText(txt []byte) (*jnode, string) {
	var probe interface{}
	if err := json.Unmarshal(txt, &probe); err != nil {
		return nil, err.Error()
	}
	dec := json.NewDecoder(bytes.NewReader(txt))
	dec.UseNumber()
	var val func() *jnode
	val = func() *jnode {
		tok, err := dec.Token()
		if err != nil {
			return nil
		}
		switch t := tok.(type) {
		case nil:
			return &jnode{kind: 'z'}
		case bool:
			return &jnode{kind: 'b', val: Bool{C: t}}
		case string:
			return &jnode{kind: 's', val: Str{S: t}}
		case json.Number:
			if i, err := strconv.ParseInt(string(t), 10, 64); err == nil {
				return &jnode{kind: 'n', val: mkBV(64, uint64(i))}
			}
			f, _ := t.Float64()
			return &jnode{kind: 'n', val: Float{F: f}}
		case json.Delim:
			switch t {
			case '[':
				n := &jnode{kind: 'a'}
				for dec.More() {
					e := val()
					if e == nil {
						return nil
					}
					n.elems = append(n.elems, e)
				}
				dec.Token()
				return n
			case '{':
				n := &jnode{kind: 'o'}
				for dec.More() {
					k, err := dec.Token()
					ks, ok := k.(string)
					if err != nil || !ok {
						return nil
					}
					e := val()
					if e == nil {
						return nil
					}
					n.names = append(n.names, ks)
					n.fields = append(n.fields, e)
				}
				dec.Token()
				return n
			}
		}
		return nil
	}
	n := val()
	if n == nil {
		return nil, "invalid JSON text"
	}
	return n, ""
}
