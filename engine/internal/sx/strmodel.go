package sx

import (
	"bytes"
	"strings"
)

// Concrete fast paths for package strings / internal/bytealg: the real functions bottom out in assembly
// (internal/bytealg), which has no SSA body. With all-concrete operands the host library computes the result;
// with a symbolic operand the call falls through to the interpreted source (and, if that reaches assembly,
// aborts as inconclusive) unless a symbolic-aware intrinsic is registered elsewhere (strings.Index, HasPrefix).

func concStrs(a []Value) ([]string, bool) {
	out := make([]string, len(a))
	for i, v := range a {
		s, ok := v.(Str)
		if !ok || !s.IsConc() {
			return nil, false
		}
		out[i] = s.S
	}
	return out, true
}

func strSliceValue(ss []string) Value {
	out := make([]Value, len(ss))
	for i, s := range ss {
		out[i] = Str{S: s}
	}
	return Slice{A: out}
}

func concBytesOf(v Value) ([]byte, bool) {
	s, ok := v.(Slice)
	if !ok {
		return nil, false
	}
	return allConcBytesSafe(s.A)
}

func allConcBytesSafe(vs []Value) ([]byte, bool) {
	out := make([]byte, len(vs))
	for i, v := range vs {
		b, ok := v.(BV)
		if !ok || b.T != nil {
			return nil, false
		}
		out[i] = byte(b.C)
	}
	return out, true
}

// concOnly wraps f so that it is used only when every string operand is concrete; otherwise the interpreter
// continues into the function's own SSA body.
type fallthroughToBody struct{}

func init() {
	s1 := func(name string, f func(a string) Value) {
		concreteOnly["strings."+name] = func(in *Interp, a []Value) (Value, bool) {
			ss, ok := concStrs(a[:1])
			if !ok {
				return nil, false
			}
			return f(ss[0]), true
		}
	}
	s2 := func(name string, f func(a, b string) Value) {
		concreteOnly["strings."+name] = func(in *Interp, a []Value) (Value, bool) {
			ss, ok := concStrs(a[:2])
			if !ok {
				return nil, false
			}
			return f(ss[0], ss[1]), true
		}
	}
	i64 := func(n int) Value { return mkBV(64, uint64(int64(n))) }
	s2("Split", func(a, b string) Value { return strSliceValue(strings.Split(a, b)) })
	s2("Contains", func(a, b string) Value { return Bool{C: strings.Contains(a, b)} })
	s2("HasSuffix", func(a, b string) Value { return Bool{C: strings.HasSuffix(a, b)} })
	s2("TrimPrefix", func(a, b string) Value { return Str{S: strings.TrimPrefix(a, b)} })
	s2("TrimSuffix", func(a, b string) Value { return Str{S: strings.TrimSuffix(a, b)} })
	s2("Trim", func(a, b string) Value { return Str{S: strings.Trim(a, b)} })
	s2("TrimLeft", func(a, b string) Value { return Str{S: strings.TrimLeft(a, b)} })
	s2("TrimRight", func(a, b string) Value { return Str{S: strings.TrimRight(a, b)} })
	s2("Count", func(a, b string) Value { return i64(strings.Count(a, b)) })
	s2("LastIndex", func(a, b string) Value { return i64(strings.LastIndex(a, b)) })
	s2("EqualFold", func(a, b string) Value { return Bool{C: strings.EqualFold(a, b)} })
	s2("Compare", func(a, b string) Value { return i64(strings.Compare(a, b)) })
	s2("ContainsAny", func(a, b string) Value { return Bool{C: strings.ContainsAny(a, b)} })
	s2("IndexAny", func(a, b string) Value { return i64(strings.IndexAny(a, b)) })
	s1("TrimSpace", func(a string) Value { return Str{S: strings.TrimSpace(a)} })
	s1("ToLower", func(a string) Value { return Str{S: strings.ToLower(a)} })
	s1("ToUpper", func(a string) Value { return Str{S: strings.ToUpper(a)} })
	s1("Fields", func(a string) Value { return strSliceValue(strings.Fields(a)) })
	concreteOnly["strings.ReplaceAll"] = func(in *Interp, a []Value) (Value, bool) {
		ss, ok := concStrs(a[:3])
		if !ok {
			return nil, false
		}
		return Str{S: strings.ReplaceAll(ss[0], ss[1], ss[2])}, true
	}
	concreteOnly["strings.Replace"] = func(in *Interp, a []Value) (Value, bool) {
		ss, ok := concStrs(a[:3])
		n, isBV := a[3].(BV)
		if !ok || !isBV || n.T != nil {
			return nil, false
		}
		return Str{S: strings.Replace(ss[0], ss[1], ss[2], int(n.Signed()))}, true
	}
	concreteOnly["strings.SplitN"] = func(in *Interp, a []Value) (Value, bool) {
		ss, ok := concStrs(a[:2])
		n, isBV := a[2].(BV)
		if !ok || !isBV || n.T != nil {
			return nil, false
		}
		return strSliceValue(strings.SplitN(ss[0], ss[1], int(n.Signed()))), true
	}
	concreteOnly["strings.IndexByte"] = func(in *Interp, a []Value) (Value, bool) {
		ss, ok := concStrs(a[:1])
		c, isBV := a[1].(BV)
		if !ok || !isBV || c.T != nil {
			return nil, false
		}
		return i64(strings.IndexByte(ss[0], byte(c.C))), true
	}
	concreteOnly["strings.Repeat"] = func(in *Interp, a []Value) (Value, bool) {
		ss, ok := concStrs(a[:1])
		n, isBV := a[1].(BV)
		if !ok || !isBV || n.T != nil || n.Signed() < 0 || n.Signed() > 1<<16 {
			return nil, false
		}
		return Str{S: strings.Repeat(ss[0], int(n.Signed()))}, true
	}
	concreteOnly["strings.Join"] = func(in *Interp, a []Value) (Value, bool) {
		sl, ok := a[0].(Slice)
		if !ok {
			return nil, false
		}
		parts, ok1 := concStrs(sl.A)
		sep, ok2 := concStrs(a[1:2])
		if !ok1 || !ok2 {
			return nil, false
		}
		return Str{S: strings.Join(parts, sep[0])}, true
	}
	// internal/bytealg (assembly): concrete operands only
	ba := "internal/bytealg."
	concreteOnly[ba+"CountString"] = func(in *Interp, a []Value) (Value, bool) {
		ss, ok := concStrs(a[:1])
		c, isBV := a[1].(BV)
		if !ok || !isBV || c.T != nil {
			return nil, false
		}
		return i64(strings.Count(ss[0], string([]byte{byte(c.C)}))), true
	}
	concreteOnly[ba+"IndexByteString"] = concreteOnly["strings.IndexByte"]
	concreteOnly[ba+"IndexString"] = func(in *Interp, a []Value) (Value, bool) {
		ss, ok := concStrs(a[:2])
		if !ok {
			return nil, false
		}
		return i64(strings.Index(ss[0], ss[1])), true
	}
	concreteOnly[ba+"Count"] = func(in *Interp, a []Value) (Value, bool) {
		b, ok := concBytesOf(a[0])
		c, isBV := a[1].(BV)
		if !ok || !isBV || c.T != nil {
			return nil, false
		}
		return i64(bytes.Count(b, []byte{byte(c.C)})), true
	}
	concreteOnly[ba+"IndexByte"] = func(in *Interp, a []Value) (Value, bool) {
		b, ok := concBytesOf(a[0])
		c, isBV := a[1].(BV)
		if !ok || !isBV || c.T != nil {
			return nil, false
		}
		return i64(bytes.IndexByte(b, byte(c.C))), true
	}
	concreteOnly[ba+"Index"] = func(in *Interp, a []Value) (Value, bool) {
		b1, ok1 := concBytesOf(a[0])
		b2, ok2 := concBytesOf(a[1])
		if !ok1 || !ok2 {
			return nil, false
		}
		return i64(bytes.Index(b1, b2)), true
	}
	concreteOnly[ba+"Equal"] = func(in *Interp, a []Value) (Value, bool) {
		b1, ok1 := concBytesOf(a[0])
		b2, ok2 := concBytesOf(a[1])
		if !ok1 || !ok2 {
			return nil, false
		}
		return Bool{C: bytes.Equal(b1, b2)}, true
	}
	concreteOnly[ba+"Compare"] = func(in *Interp, a []Value) (Value, bool) {
		b1, ok1 := concBytesOf(a[0])
		b2, ok2 := concBytesOf(a[1])
		if !ok1 || !ok2 {
			return nil, false
		}
		return i64(bytes.Compare(b1, b2)), true
	}
}

// concreteOnly maps a function name to a host implementation that applies only when its operands are concrete.
var concreteOnly = map[string]func(in *Interp, a []Value) (Value, bool){}
