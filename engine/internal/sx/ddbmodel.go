package sx

import (
	"encoding/base64"
	"fmt"
	"go/types"
	"reflect"
	"strconv"
	"strings"

	"verifh/internal/smt"
)

// Models used by the DynamoDB / SQL metastore checks (C13, C18):
//
//   - encoding/base64 on symbolic bytes: EncodeToString yields a string segment "base64 text of these bytes in
//     encoding E"; DecodeString of such a segment yields the bytes back (and fails exactly when the decoder's
//     padding rule rejects the text). Concrete data goes through the real library.
//   - the two reflection-driven AttributeValue marshallers (aws-sdk-go dynamodbattribute, aws-sdk-go-v2 attributevalue):
//     tag-driven, built from the struct tags of the tree under test, producing / consuming the SDKs' real
//     AttributeValue data types, so the repo's request-building code runs on real values.
//   - strconv.ParseInt on the decimal rendering of a symbolic integer.

type b64Tag string

func (in *Interp) b64EncodingGlobal(p *Value, enc string) {
	cell := new(Value)
	*cell = Struct{}
	in.side[cell] = b64Tag(enc)
	*p = cell
}

func (in *Interp) b64EncOf(v Value) string {
	if p, ok := v.(*Value); ok && p != nil {
		if t, ok := in.side[p].(b64Tag); ok {
			return string(t)
		}
	}
	panic(inconclusive{"base64 Encoding other than Std/RawStd/URL/RawURL"})
}

func b64Real(enc string) *base64.Encoding {
	switch enc {
	case "std":
		return base64.StdEncoding
	case "raw":
		return base64.RawStdEncoding
	case "url":
		return base64.URLEncoding
	}
	return base64.RawURLEncoding
}

func allConcBytes(vs []Value) ([]byte, bool) {
	out := make([]byte, len(vs))
	for i, v := range vs {
		b := v.(BV)
		if b.T != nil {
			return nil, false
		}
		out[i] = byte(b.C)
	}
	return out, true
}

func bytesToValues(b []byte) []Value {
	out := make([]Value, len(b))
	for i, c := range b {
		out[i] = mkBV(8, uint64(c))
	}
	return out
}

func (in *Interp) b64Encode(enc string, data []Value) Str {
	if c, ok := allConcBytes(data); ok {
		return Str{S: b64Real(enc).EncodeToString(c)}
	}
	return Str{Segs: []Seg{{B64: append([]BV{}, bvs(data)...), Enc: enc}}}
}

// b64Decode returns (bytes, errorMessage).
func (in *Interp) b64Decode(enc string, s Str) ([]Value, string) {
	if s.IsConc() {
		out, err := b64Real(enc).DecodeString(s.S)
		if err != nil {
			return nil, err.Error()
		}
		return bytesToValues(out), ""
	}
	if len(s.Segs) != 1 || s.Segs[0].B64 == nil {
		panic(inconclusive{"base64 decoding of a symbolic string that is not a base64 text of the model"})
	}
	g := s.Segs[0]
	sameAlpha := (g.Enc == "std" || g.Enc == "raw") == (enc == "std" || enc == "raw")
	if !sameAlpha {
		panic(inconclusive{"base64 decoding across alphabets"})
	}
	padded := g.Enc == "std" || g.Enc == "url"
	wantPad := enc == "std" || enc == "url"
	if padded != wantPad && len(g.B64)%3 != 0 {
		return nil, "illegal base64 data at input byte " + strconv.Itoa((len(g.B64)*8+5)/6/4*4)
	}
	out := make([]Value, len(g.B64))
	for i, b := range g.B64 {
		out[i] = b
	}
	return out, ""
}

func init() {
	reg := func(name string, f intrinsic) { intrinsics[name] = f }
	reg("(*encoding/base64.Encoding).EncodeToString", func(in *Interp, fr *frame, a []Value) Value {
		return in.b64Encode(in.b64EncOf(a[0]), bytesOf(a[1]))
	})
	reg("(*encoding/base64.Encoding).DecodeString", func(in *Interp, fr *frame, a []Value) Value {
		out, e := in.b64Decode(in.b64EncOf(a[0]), a[1].(Str))
		if e != "" {
			return Tuple{Slice{Nil: true}, in.errorValue(e)}
		}
		return Tuple{Slice{A: out}, nilError()}
	})
	reg("(*encoding/base64.Encoding).EncodedLen", func(in *Interp, fr *frame, a []Value) Value {
		n := a[1].(BV)
		if n.T != nil {
			panic(inconclusive{"EncodedLen of a symbolic length"})
		}
		return mkBV(64, uint64(b64Real(in.b64EncOf(a[0])).EncodedLen(int(n.C))))
	})
	reg("(*encoding/base64.Encoding).DecodedLen", func(in *Interp, fr *frame, a []Value) Value {
		n := a[1].(BV)
		if n.T != nil {
			panic(inconclusive{"DecodedLen of a symbolic length"})
		}
		return mkBV(64, uint64(b64Real(in.b64EncOf(a[0])).DecodedLen(int(n.C))))
	})
	// Decode(dst, src []byte): src bytes of a model text cannot be inspected; concrete text goes through the library
	reg("(*encoding/base64.Encoding).Decode", func(in *Interp, fr *frame, a []Value) Value {
		dst, src := bytesOf(a[1]), bytesOf(a[2])
		var out []Value
		var e string
		if tok, ok := in.strOfByteToken(src); ok {
			out, e = in.b64Decode(in.b64EncOf(a[0]), tok)
		} else if c, ok := allConcBytes(src); ok {
			o, err := b64Real(in.b64EncOf(a[0])).DecodeString(string(c))
			if err != nil {
				e = err.Error()
			}
			out = bytesToValues(o)
		} else {
			panic(inconclusive{"base64 Decode of symbolic text"})
		}
		if e != "" {
			return Tuple{mkBV(64, 0), in.errorValue(e)}
		}
		if len(out) > len(dst) {
			in.goPanic("runtime error: index out of range (base64 Decode into a short buffer)")
		}
		copy(dst, out)
		return Tuple{mkBV(64, uint64(len(out))), nilError()}
	})
	reg("strconv.ParseInt", func(in *Interp, fr *frame, a []Value) Value {
		s := a[0].(Str)
		base, bits := a[1].(BV), a[2].(BV)
		if base.T != nil || bits.T != nil {
			panic(inconclusive{"ParseInt with symbolic base/bitSize"})
		}
		if s.IsConc() {
			v, err := strconv.ParseInt(s.S, int(base.C), int(bits.C))
			if err != nil {
				return Tuple{mkBV(64, uint64(v)), in.errorValue(err.Error())}
			}
			return Tuple{mkBV(64, uint64(v)), nilError()}
		}
		if len(s.Segs) == 1 && s.Segs[0].Itoa != nil && (base.C == 10 || base.C == 0) && (bits.C == 64 || bits.C == 0) {
			return Tuple{s.Segs[0].ItoaV, nilError()}
		}
		panic(inconclusive{"ParseInt of a symbolic string that is not a single formatted integer"})
	})
}

// ---- symbolic strings carried through []byte conversions ----
//
// string -> []byte of a string with symbolic segments cannot be rendered byte by byte; the conversion yields a
// one-element "token" slice that remembers the string, and []byte -> string of such a token gives the string back.

type strToken struct {
	s *Str
	i int
}

func (in *Interp) byteTokenOfStr(s Str) []Value {
	n := in.strLen(s)
	if n.T != nil {
		panic(inconclusive{"[]byte(symbolic string of symbolic length)"})
	}
	cp := s
	out := make([]Value, int(n.C))
	for i := range out {
		out[i] = &Obj{Kind: "strtoken", X: strToken{s: &cp, i: i}}
	}
	return out
}

func (in *Interp) strOfByteToken(bs []Value) (Str, bool) {
	if len(bs) == 0 {
		return Str{}, false
	}
	var first *Str
	for i, e := range bs {
		o, ok := e.(*Obj)
		if !ok || o == nil || o.Kind != "strtoken" {
			if i == 0 {
				return Str{}, false
			}
			panic(inconclusive{"bytes of a symbolic-string token mixed with other bytes"})
		}
		t := o.X.(strToken)
		if i == 0 {
			first = t.s
		}
		if t.s != first || t.i != i {
			panic(inconclusive{"re-sliced symbolic-string token"})
		}
	}
	if n := in.strLen(*first); n.T != nil || int(n.C) != len(bs) {
		panic(inconclusive{"partial symbolic-string token"})
	}
	return *first, true
}

// ---- AttributeValue marshalling ----

const (
	ddbV1Pkg     = "github.com/aws/aws-sdk-go/service/dynamodb"
	ddbV1AttrPkg = "github.com/aws/aws-sdk-go/service/dynamodb/dynamodbattribute"
	ddbV2Types   = "github.com/aws/aws-sdk-go-v2/service/dynamodb/types"
	ddbV2AttrPkg = "github.com/aws/aws-sdk-go-v2/feature/dynamodb/attributevalue"
)

func parseAVTag(f *types.Var, tag string, v1 bool) (name string, omitempty, skip bool) {
	name = f.Name()
	t, ok := reflect.StructTag(tag).Lookup("dynamodbav")
	if !ok && v1 {
		t, ok = reflect.StructTag(tag).Lookup("json") // dynamodbattribute: SupportJSONTags defaults to true
	}
	if !ok {
		return name, false, false
	}
	if t == "-" {
		return "", false, true
	}
	parts := strings.Split(t, ",")
	if parts[0] != "" {
		name = parts[0]
	}
	for _, p := range parts[1:] {
		switch p {
		case "omitempty":
			omitempty = true
		case "omitemptyelem", "nullempty", "nullemptyelem", "string", "unixtime", "stringset", "numberset", "binaryset":
			panic(inconclusive{"dynamodbav tag option " + p + " is not modelled"})
		default:
			// the libraries compare option names exactly and ignore what they do not know (" omitempty" is not omitempty)
		}
	}
	return name, omitempty, false
}

// avEncode mirrors Encoder.encode of the two libraries for the kinds of value the metastores marshal.
// It returns nil when the value is to be left out (omitempty).
func (in *Interp) avEncode(v1 bool, t types.Type, v Value, omit bool) *jnode {
	if it, ok := v.(Iface); ok {
		if it.T == nil {
			if omit {
				return nil
			}
			return &jnode{kind: 'z'}
		}
		return in.avEncode(v1, it.T, it.V, omit)
	}
	if isTimeType(t) {
		panic(inconclusive{"AttributeValue marshalling of time.Time"})
	}
	if omit && in.isEmptyJSON(v) {
		return nil
	}
	switch u := t.Underlying().(type) {
	case *types.Pointer:
		p := v.(*Value)
		if p == nil {
			return &jnode{kind: 'z'}
		}
		return in.avEncode(v1, u.Elem(), *p, false)
	case *types.Struct:
		n := &jnode{kind: 'o'}
		sv := v.(Struct)
		for i := 0; i < u.NumFields(); i++ {
			f := u.Field(i)
			if f.Embedded() {
				panic(inconclusive{"AttributeValue marshalling of embedded fields"})
			}
			if !f.Exported() {
				continue
			}
			name, fomit, skip := parseAVTag(f, u.Tag(i), v1)
			if skip {
				continue
			}
			fv := sv[i]
			c := in.avEncode(v1, f.Type(), fv, fomit)
			if c == nil || (v1 && fomit && c.kind == 'z') {
				continue
			}
			if b, isBool := c.val.(Bool); isBool && fomit && b.T != nil {
				c.val = Bool{C: true} // a non-empty bool is true on this path
			}
			n.names = append(n.names, name)
			n.fields = append(n.fields, c)
		}
		if v1 && len(n.names) == 0 {
			return &jnode{kind: 'z'}
		}
		return n
	case *types.Slice:
		s := v.(Slice)
		if b, ok := u.Elem().Underlying().(*types.Basic); ok && b.Kind() == types.Uint8 {
			if s.Nil || (v1 && len(s.A) == 0) {
				return &jnode{kind: 'z'}
			}
			cp := make([]Value, len(s.A))
			copy(cp, s.A)
			return &jnode{kind: 'y', val: Slice{A: cp}}
		}
		if s.Nil || (v1 && len(s.A) == 0) {
			return &jnode{kind: 'z'}
		}
		n := &jnode{kind: 'a'}
		for _, e := range s.A {
			c := in.avEncode(v1, u.Elem(), e, false)
			if c == nil {
				c = &jnode{kind: 'z'}
			}
			n.elems = append(n.elems, c)
		}
		return n
	case *types.Map:
		m := v.(*Map)
		if m == nil || (v1 && m.N == 0) {
			return &jnode{kind: 'z'}
		}
		n := &jnode{kind: 'o'}
		for _, e := range m.Entries {
			if e.deleted {
				continue
			}
			ks, ok := e.K.(Str)
			if !ok || !ks.IsConc() {
				panic(inconclusive{"AttributeValue marshalling of a map with non-constant-string keys"})
			}
			c := in.avEncode(v1, u.Elem(), e.V, false)
			if c == nil {
				continue
			}
			n.names = append(n.names, ks.S)
			n.fields = append(n.fields, c)
		}
		return n
	case *types.Basic:
		switch {
		case u.Info()&types.IsString != 0:
			s := v.(Str)
			if v1 && s.IsConc() && s.S == "" {
				return &jnode{kind: 'z'} // NullEmptyString
			}
			return &jnode{kind: 's', val: s}
		case u.Info()&types.IsBoolean != 0:
			return &jnode{kind: 'b', val: v}
		case u.Info()&types.IsInteger != 0:
			return &jnode{kind: 'n', val: v}
		}
	case *types.Interface:
		return &jnode{kind: 'z'}
	}
	panic(inconclusive{fmt.Sprintf("AttributeValue marshalling of %s", t)})
}

func (in *Interp) namedType(pkgPath, name string) *types.Named {
	pkg := in.prog.ImportedPackage(pkgPath)
	if pkg == nil {
		panic(inconclusive{"package " + pkgPath + " is not part of the loaded program"})
	}
	t := pkg.Type(name)
	if t == nil {
		panic(inconclusive{"type " + pkgPath + "." + name + " not found"})
	}
	return t.Object().Type().(*types.Named)
}

func fieldIndex(st *types.Struct, name string) int {
	for i := 0; i < st.NumFields(); i++ {
		if st.Field(i).Name() == name {
			return i
		}
	}
	panic(inconclusive{"struct field " + name + " not found"})
}

func ptrTo(v Value) *Value { p := new(Value); *p = v; return p }

func (in *Interp) numStr(v Value) Str {
	b := v.(BV)
	if b.T == nil {
		if b.W == 64 {
			return Str{S: strconv.FormatInt(b.Signed(), 10)}
		}
		return Str{S: strconv.FormatInt(b.Signed(), 10)}
	}
	if b.W != 64 {
		panic(inconclusive{"AttributeValue N of a symbolic integer narrower than 64 bits"})
	}
	return Str{Segs: []Seg{{Itoa: b.T, ItoaV: b}}}
}

// avBuildV1 builds a *dynamodb.AttributeValue.
func (in *Interp) avBuildV1(n *jnode) Value {
	nt := in.namedType(ddbV1Pkg, "AttributeValue")
	st := nt.Underlying().(*types.Struct)
	sv := in.zero(st).(Struct)
	set := func(field string, v Value) { sv[fieldIndex(st, field)] = v }
	switch n.kind {
	case 'z':
		set("NULL", ptrTo(Bool{C: true}))
	case 's':
		set("S", ptrTo(n.val))
	case 'n':
		set("N", ptrTo(in.numStr(n.val)))
	case 'b':
		set("BOOL", ptrTo(n.val))
	case 'y':
		set("B", n.val)
	case 'o':
		set("M", in.avBuildMapV1(n))
	case 'a':
		var out []Value
		for _, e := range n.elems {
			out = append(out, in.avBuildV1(e))
		}
		set("L", Slice{A: out})
	default:
		panic(inconclusive{"AttributeValue kind"})
	}
	return ptrTo(sv)
}

func (in *Interp) avBuildMapV1(n *jnode) *Map {
	m := &Map{KeyT: types.Typ[types.String]}
	for i, name := range n.names {
		in.mapInsert(m, Str{S: name}, in.avBuildV1(n.fields[i]))
	}
	return m
}

// avBuildV2 builds a types.AttributeValue (an interface holding *types.AttributeValueMemberX).
func (in *Interp) avBuildV2(n *jnode) Value {
	mk := func(member string, val Value) Value {
		nt := in.namedType(ddbV2Types, "AttributeValueMember"+member)
		st := nt.Underlying().(*types.Struct)
		sv := in.zero(st).(Struct)
		sv[fieldIndex(st, "Value")] = val
		return Iface{T: types.NewPointer(nt), V: ptrTo(sv)}
	}
	switch n.kind {
	case 'z':
		return mk("NULL", Bool{C: true})
	case 's':
		return mk("S", n.val)
	case 'n':
		return mk("N", in.numStr(n.val))
	case 'b':
		return mk("BOOL", n.val)
	case 'y':
		return mk("B", n.val)
	case 'o':
		return mk("M", in.avBuildMapV2(n))
	case 'a':
		var out []Value
		for _, e := range n.elems {
			out = append(out, in.avBuildV2(e))
		}
		return mk("L", Slice{A: out})
	}
	panic(inconclusive{"AttributeValue kind"})
}

func (in *Interp) avBuildMapV2(n *jnode) *Map {
	m := &Map{KeyT: types.Typ[types.String]}
	for i, name := range n.names {
		in.mapInsert(m, Str{S: name}, in.avBuildV2(n.fields[i]))
	}
	return m
}

func (in *Interp) avParseMap(v1 bool, m *Map) *jnode {
	n := &jnode{kind: 'o'}
	if m == nil {
		return n
	}
	for _, e := range m.Entries {
		if e.deleted {
			continue
		}
		ks, ok := e.K.(Str)
		if !ok || !ks.IsConc() {
			panic(inconclusive{"AttributeValue map with a symbolic key"})
		}
		n.names = append(n.names, ks.S)
		if v1 {
			n.fields = append(n.fields, in.avParseV1(e.V))
		} else {
			n.fields = append(n.fields, in.avParseV2(e.V))
		}
	}
	return n
}

func (in *Interp) avParseV1(v Value) *jnode {
	p, _ := v.(*Value)
	if p == nil {
		return &jnode{kind: 'z'}
	}
	nt := in.namedType(ddbV1Pkg, "AttributeValue")
	st := nt.Underlying().(*types.Struct)
	sv := (*p).(Struct)
	get := func(field string) Value { return sv[fieldIndex(st, field)] }
	if q := get("S").(*Value); q != nil {
		return &jnode{kind: 's', val: *q}
	}
	if q := get("N").(*Value); q != nil {
		return &jnode{kind: 'N', val: *q} // decimal text, decoded on demand
	}
	if q := get("BOOL").(*Value); q != nil {
		return &jnode{kind: 'b', val: *q}
	}
	if m := get("M").(*Map); m != nil {
		return in.avParseMap(true, m)
	}
	if q := get("NULL").(*Value); q != nil {
		return &jnode{kind: 'z'}
	}
	if b := get("B").(Slice); !b.Nil {
		return &jnode{kind: 'y', val: b}
	}
	if l := get("L").(Slice); !l.Nil {
		n := &jnode{kind: 'a'}
		for _, e := range l.A {
			n.elems = append(n.elems, in.avParseV1(e))
		}
		return n
	}
	return &jnode{kind: 'z'}
}

func (in *Interp) avParseV2(v Value) *jnode {
	it, ok := v.(Iface)
	if !ok || it.T == nil {
		return &jnode{kind: 'z'}
	}
	pt, ok := it.T.(*types.Pointer)
	if !ok {
		panic(inconclusive{"AttributeValue member held by value"})
	}
	nt := pt.Elem().(*types.Named)
	name := nt.Obj().Name()
	p := it.V.(*Value)
	if p == nil {
		return &jnode{kind: 'z'}
	}
	st := nt.Underlying().(*types.Struct)
	val := (*p).(Struct)[fieldIndex(st, "Value")]
	switch strings.TrimPrefix(name, "AttributeValueMember") {
	case "S":
		return &jnode{kind: 's', val: val}
	case "N":
		return &jnode{kind: 'N', val: val}
	case "BOOL":
		return &jnode{kind: 'b', val: val}
	case "NULL":
		return &jnode{kind: 'z'}
	case "B":
		return &jnode{kind: 'y', val: val}
	case "M":
		return in.avParseMap(false, val.(*Map))
	case "L":
		n := &jnode{kind: 'a'}
		for _, e := range val.(Slice).A {
			n.elems = append(n.elems, in.avParseV2(e))
		}
		return n
	}
	panic(inconclusive{"AttributeValue member " + name})
}

// avDecode mirrors Decoder.decode: NULL sets the zero value, M maps onto struct fields by tag name
// (exact, then case-insensitive), scalars must match the destination kind.
func (in *Interp) avDecode(v1 bool, n *jnode, t types.Type, p *Value) string {
	if n.kind == 'z' {
		*p = in.zero(t)
		return ""
	}
	switch u := t.Underlying().(type) {
	case *types.Pointer:
		pv := (*p).(*Value)
		if pv == nil {
			nv := in.zero(u.Elem())
			pv = &nv
			*p = pv
		}
		return in.avDecode(v1, n, u.Elem(), pv)
	case *types.Struct:
		if n.kind != 'o' {
			return "cannot unmarshal non-map AttributeValue into Go struct"
		}
		sv := (*p).(Struct)
		for i, name := range n.names {
			idx, fold := -1, -1
			for j := 0; j < u.NumFields(); j++ {
				f := u.Field(j)
				if !f.Exported() {
					continue
				}
				fn, _, skip := parseAVTag(f, u.Tag(j), v1)
				if skip {
					continue
				}
				if fn == name {
					idx = j
					break
				}
				if fold < 0 && strings.EqualFold(fn, name) {
					fold = j
				}
			}
			if idx < 0 {
				idx = fold
			}
			if idx < 0 {
				continue
			}
			if e := in.avDecode(v1, n.fields[i], u.Field(idx).Type(), &sv[idx]); e != "" {
				return e
			}
		}
		return ""
	case *types.Slice:
		if b, ok := u.Elem().Underlying().(*types.Basic); ok && b.Kind() == types.Uint8 {
			if n.kind == 's' && v1 {
				// dynamodbattribute: a string attribute unmarshals into []byte by standard base64 decoding
				out, e := in.b64Decode("std", n.val.(Str))
				if e != "" {
					return e
				}
				*p = Slice{A: out}
				return ""
			}
			if n.kind != 'y' {
				return "cannot unmarshal non-binary AttributeValue into []byte"
			}
			src := n.val.(Slice)
			cp := make([]Value, len(src.A))
			copy(cp, src.A)
			*p = Slice{A: cp}
			return ""
		}
		if n.kind != 'a' {
			return "cannot unmarshal non-list AttributeValue into Go slice"
		}
		out := make([]Value, len(n.elems))
		for i, e := range n.elems {
			out[i] = in.zero(u.Elem())
			if er := in.avDecode(v1, e, u.Elem(), &out[i]); er != "" {
				return er
			}
		}
		*p = Slice{A: out}
		return ""
	case *types.Basic:
		switch {
		case u.Info()&types.IsString != 0:
			if n.kind != 's' {
				return "cannot unmarshal non-string AttributeValue into Go string"
			}
			*p = n.val
		case u.Info()&types.IsBoolean != 0:
			if n.kind != 'b' {
				return "cannot unmarshal non-bool AttributeValue into Go bool"
			}
			*p = n.val
		case u.Info()&types.IsInteger != 0:
			w, _, _ := intWidth(t)
			switch n.kind {
			case 'n':
				b := n.val.(BV)
				if int(b.W) != w {
					panic(inconclusive{"AttributeValue number across integer widths"})
				}
				*p = b
			case 'N':
				s := n.val.(Str)
				if s.IsConc() {
					x, err := strconv.ParseInt(s.S, 10, w)
					if err != nil {
						return "cannot unmarshal number " + s.S + " into Go integer"
					}
					*p = mkBV(w, uint64(x))
				} else if len(s.Segs) == 1 && s.Segs[0].Itoa != nil && w == 64 {
					*p = s.Segs[0].ItoaV
				} else {
					panic(inconclusive{"AttributeValue N that is not a single formatted integer"})
				}
			default:
				return "cannot unmarshal non-number AttributeValue into Go integer"
			}
		default:
			panic(inconclusive{"AttributeValue unmarshal into " + t.String()})
		}
		return ""
	}
	panic(inconclusive{"AttributeValue unmarshal into " + t.String()})
}

func init() {
	reg := func(name string, f intrinsic) { intrinsics[name] = f }
	marshalMap := func(v1 bool) intrinsic {
		return func(in *Interp, fr *frame, a []Value) Value {
			it := a[0].(Iface)
			n := in.avEncode(v1, it.T, it.V, false)
			if n == nil || n.kind != 'o' {
				// the libraries return an empty map for a value that does not marshal to M
				return Tuple{&Map{KeyT: types.Typ[types.String]}, nilError()}
			}
			if v1 {
				return Tuple{in.avBuildMapV1(n), nilError()}
			}
			return Tuple{in.avBuildMapV2(n), nilError()}
		}
	}
	marshal := func(v1 bool) intrinsic {
		return func(in *Interp, fr *frame, a []Value) Value {
			it := a[0].(Iface)
			n := in.avEncode(v1, it.T, it.V, false)
			if n == nil {
				n = &jnode{kind: 'z'}
			}
			if v1 {
				return Tuple{in.avBuildV1(n), nilError()}
			}
			return Tuple{in.avBuildV2(n), nilError()}
		}
	}
	unmarshal := func(v1, isMap bool) intrinsic {
		return func(in *Interp, fr *frame, a []Value) Value {
			var n *jnode
			switch {
			case isMap:
				m, _ := a[0].(*Map)
				n = in.avParseMap(v1, m)
			case v1:
				n = in.avParseV1(a[0])
			default:
				n = in.avParseV2(a[0])
			}
			dst := a[1].(Iface)
			pt, ok := dst.T.Underlying().(*types.Pointer)
			if !ok || dst.V.(*Value) == nil {
				return in.errorValue("InvalidUnmarshalError: cannot unmarshal to non-pointer value")
			}
			if e := in.avDecode(v1, n, pt.Elem(), dst.V.(*Value)); e != "" {
				return in.errorValue("UnmarshalTypeError: " + e)
			}
			return nilError()
		}
	}
	reg(ddbV1AttrPkg+".MarshalMap", marshalMap(true))
	reg(ddbV1AttrPkg+".Marshal", marshal(true))
	reg(ddbV1AttrPkg+".Unmarshal", unmarshal(true, false))
	reg(ddbV1AttrPkg+".UnmarshalMap", unmarshal(true, true))
	reg(ddbV2AttrPkg+".MarshalMap", marshalMap(false))
	reg(ddbV2AttrPkg+".Marshal", marshal(false))
	reg(ddbV2AttrPkg+".Unmarshal", unmarshal(false, false))
	reg(ddbV2AttrPkg+".UnmarshalMap", unmarshal(false, true))
	// ...WithOptions: option functions are not applied (the metastores pass none; the expression builder passes its
	// caller's, which are empty here); a non-empty option list is refused
	noOpts := func(f intrinsic, optArg int) intrinsic {
		return func(in *Interp, fr *frame, a []Value) Value {
			if s, ok := a[optArg].(Slice); ok && len(s.A) > 0 {
				panic(inconclusive{"AttributeValue marshalling with encoder/decoder options"})
			}
			return f(in, fr, a)
		}
	}
	reg(ddbV2AttrPkg+".MarshalWithOptions", noOpts(marshal(false), 1))
	reg(ddbV2AttrPkg+".MarshalMapWithOptions", noOpts(marshalMap(false), 1))
	reg(ddbV2AttrPkg+".UnmarshalWithOptions", noOpts(unmarshal(false, false), 2))
	reg(ddbV2AttrPkg+".UnmarshalMapWithOptions", noOpts(unmarshal(false, true), 2))
	_ = smt.IntSort
}

func init() {
	// the SDK service constructors are never used by the checks (clients are injected through the repo's interfaces)
	intrinsics[ddbV1Pkg+".New"] = func(in *Interp, fr *frame, a []Value) Value { return (*Value)(nil) }
}
