package sx

import (
	"fmt"
	"os"
	"path/filepath"
	"sort"
	"strconv"
	"strings"
	"sync/atomic"

	"verifh/internal/smt"
)

// Violation is one failed assertion / implicit check on one path.
type Violation struct {
	Label     string            `json:"label"`
	Kind      string            `json:"kind"` // assert | panic | deadlock | goroutine-panic
	Msg       string            `json:"msg,omitempty"`
	Harness   string            `json:"harness"`
	Known     string            `json:"known_class,omitempty"`
	Tags      []string          `json:"tags,omitempty"`
	Decisions []int             `json:"decisions"`
	Choices   []Choice          `json:"choices"`
	Model     map[string]string `json:"model,omitempty"`
	Stack     string            `json:"stack,omitempty"`
}

// Choice is one harness-visible decision (vx.Choice / BytesUpTo length / fault / schedule).
type Choice struct {
	Kind   string `json:"kind"`
	Chosen int    `json:"chosen"`
}

func (in *Interp) choiceVector() []Choice {
	var out []Choice
	for _, d := range in.log {
		if strings.HasPrefix(d.Kind, "choice:") || strings.HasPrefix(d.Kind, "len:") || strings.HasPrefix(d.Kind, "fault:") || strings.HasPrefix(d.Kind, "sched:") || d.Kind == "maporder" || d.Kind == "select" {
			out = append(out, Choice{d.Kind, d.Chosen})
		}
	}
	return out
}

// PathResult summarises one explored path.
type PathResult struct {
	Status      string // ok | infeasible | inconclusive
	Reason      string
	Violations  []Violation
	Reach       map[string]bool
	Stubs       map[string]int
	Notes       map[string]int
	Tags        []string
	Queries     int
	Obligations int
	Decisions   int
	UnknownFeas int
	Switches    int
	AssertsSym  int
	AssertsConc int
	Steps       int
	Log         []decision
	Sample      map[string]string
	SampleCh    []Choice
	SampleFull  map[string]string
}

func (r *PathResult) stub(name string) {
	if r == nil {
		return
	}
	r.Stubs[name]++
}
func (r *PathResult) note(name string) { r.Notes[name]++ }
func (r *PathResult) tag(t string)     { r.Tags = append(r.Tags, t) }

func (in *Interp) modelVars() []*smt.Term { return in.inputs }

func (in *Interp) decisionVector() []int {
	out := make([]int, len(in.log))
	for i, d := range in.log {
		out[i] = d.Chosen
	}
	return out
}

// reportViolation records a violation after consulting the known classes registered for label.
// extra is the (symbolic) negated property under which the violation happens (nil: the path itself).
func (in *Interp) reportViolation(kind, label, msg string, extra *smt.Term, fr *frame) {
	tb := in.tb
	if extra == nil {
		extra = tb.True
	}
	classes := in.m.classes[label]
	var listed []*smt.Term
	for _, c := range classes {
		if in.cfg.KnownIDs[c.id] {
			listed = append(listed, c.cond)
		}
	}
	mk := func(known string, model map[string]string) Violation {
		return Violation{Label: label, Kind: kind, Msg: msg, Harness: in.cfg.Entry, Known: known,
			Tags: append(append([]string{}, in.m.tags...), in.res.Tags...), Decisions: in.decisionVector(), Choices: in.choiceVector(), Model: model, Stack: stackOf(fr)}
	}
	// 1. anything outside every listed class is a new violation
	outside := tb.And(extra, tb.Not(tb.Or(listed...)))
	if outside != tb.False {
		r, model := in.sol.CheckModel(in.modelVars(), outside)
		in.res.Queries++
		switch r {
		case smt.Sat:
			in.res.Violations = append(in.res.Violations, mk("", model))
		case smt.Unknown:
			panic(inconclusive{"solver returned unknown on violation query for " + label + " " + in.sol.LastErr})
		}
	}
	// 2. each listed class that still occurs is printed as a known finding
	for _, c := range classes {
		if !in.cfg.KnownIDs[c.id] {
			continue
		}
		q := tb.And(extra, c.cond)
		if q == tb.False {
			continue
		}
		r, model := in.sol.CheckModel(in.modelVars(), q)
		in.res.Queries++
		if r == smt.Sat {
			in.res.Violations = append(in.res.Violations, mk(c.id, model))
		} else if r == smt.Unknown {
			panic(inconclusive{"solver returned unknown on known-class query for " + label})
		}
	}
}

func (in *Interp) vxAssert(fr *frame, label string, c Bool) {
	if c.T == nil {
		in.res.AssertsConc++
		if !c.C {
			in.reportViolation("assert", label, "", nil, fr)
			panic(pathAbort{"assertion " + label + " failed on the whole path"})
		}
		return
	}
	in.res.AssertsSym++
	neg := in.tb.Not(c.T)
	r := in.sol.Check(neg)
	in.res.Queries++
	in.crossCheck(label, neg, r)
	switch r {
	case smt.Unsat:
		// holds for every value on this path
	case smt.Sat:
		in.reportViolation("assert", label, "", neg, fr)
	default:
		panic(inconclusive{"solver returned unknown on assertion " + label + " " + in.sol.LastErr})
	}
	// continue under the assertion (later assertions are checked independently of this failure)
	in.assume(c.T)
}

// crossCheck re-decides a sampled verdict query with cvc5 and z3 5.1 from a standalone script (DESIGN 2.4).
// A definite disagreement makes the run inconclusive; an unknown from the other solver is only counted.
func (in *Interp) crossCheck(label string, neg *smt.Term, r smt.Result) {
	cfg := in.cfg
	if cfg.CrossEvery <= 0 || (r != smt.Sat && r != smt.Unsat) {
		return
	}
	n := atomic.AddInt64(&in.ex.assertSeq, 1)
	if (n+int64(cfg.Seed))%int64(cfg.CrossEvery) != 0 {
		return
	}
	if atomic.AddInt64(&in.ex.crossDone, 1) > int64(cfg.CrossMax) {
		return
	}
	f, err := os.CreateTemp("", "gosx-x-*.smt2")
	if err != nil {
		return
	}
	defer os.Remove(f.Name())
	in.sol.Dump(f, neg)
	f.Close()
	for _, k := range []string{"cvc5", "z3-new"} {
		r2, _ := smt.RunScript(k, f.Name(), 30)
		switch {
		case r2 == smt.Unknown:
			in.res.note("xcheck." + k + ".unknown")
		case r2 == r:
			in.res.note("xcheck." + k + ".agree")
		default:
			keep := filepath.Join(os.TempDir(), "gosx-disagreement-"+filepath.Base(f.Name()))
			if b, e := os.ReadFile(f.Name()); e == nil {
				os.WriteFile(keep, b, 0o644)
			}
			panic(inconclusive{fmt.Sprintf("solver disagreement on assertion %s: z3 says %s, %s says %s (script kept at %s)", label, r, k, r2, keep)})
		}
	}
}

func strArg(v Value) string {
	s := v.(Str)
	if !s.IsConc() {
		panic(inconclusive{"vx intrinsic needs a constant string argument"})
	}
	return s.S
}

func (in *Interp) inputBV(name string, w int) BV {
	k := in.names["in:"+name]
	in.names["in:"+name] = k + 1
	v := in.tb.Var(fmt.Sprintf("in_%s_%d_b%d", name, k, w), smt.BVSort(w))
	in.input(v)
	return BV{W: uint8(w), T: v}
}

// inputInt is a symbolic signed 64-bit input with an integer twin (full int64 range).
func (in *Interp) inputInt(name string) BV {
	k := in.names["in:"+name]
	in.names["in:"+name] = k + 1
	v := in.tb.Var(fmt.Sprintf("in_%s_%d_I", name, k), smt.IntSort)
	in.input(v)
	in.assume(in.tb.IntCmp(">=", v, in.tb.IntLit(-1<<63)))
	in.assume(in.tb.IntCmp("<=", v, in.tb.IntLit(1<<63-1)))
	return in.mkInt(v, 63)
}

func (in *Interp) inputBytes(name string, n int) Slice {
	k := in.names["in:"+name]
	in.names["in:"+name] = k + 1
	out := make([]Value, n)
	for i := range out {
		v := in.tb.Var(fmt.Sprintf("in_%s_%d_%d", name, k, i), smt.BVSort(8))
		in.input(v)
		out[i] = BV{W: 8, T: v}
	}
	if n == 0 {
		return Slice{A: []Value{}}
	}
	return Slice{A: out}
}

func init() {
	reg := func(name string, f intrinsic) { intrinsics["verifh/vx."+name] = f }
	reg("Param", func(in *Interp, fr *frame, a []Value) Value {
		v, ok := in.cfg.Params[strArg(a[0])]
		if !ok {
			panic(inconclusive{"harness parameter " + strArg(a[0]) + " not set in the spec"})
		}
		return mkBV(64, uint64(int64(v)))
	})
	reg("Byte", func(in *Interp, fr *frame, a []Value) Value { return in.inputBV(strArg(a[0]), 8) })
	reg("Int64", func(in *Interp, fr *frame, a []Value) Value { return in.inputInt(strArg(a[0])) })
	reg("Int", func(in *Interp, fr *frame, a []Value) Value { return in.inputInt(strArg(a[0])) })
	reg("Timestamp", func(in *Interp, fr *frame, a []Value) Value {
		// a symbolic unix-seconds stamp in the modelled range [0, 2^36)
		name := strArg(a[0])
		k := in.names["in:"+name]
		in.names["in:"+name] = k + 1
		v := in.tb.Var(fmt.Sprintf("in_%s_%d_I", name, k), smt.IntSort)
		in.input(v)
		in.assume(in.tb.IntCmp(">=", v, in.tb.IntLit(0)))
		in.assume(in.tb.IntCmp("<", v, in.tb.IntLit(1<<36)))
		return in.mkInt(v, 37)
	})
	reg("Bool", func(in *Interp, fr *frame, a []Value) Value {
		name := strArg(a[0])
		k := in.names["in:"+name]
		in.names["in:"+name] = k + 1
		v := in.tb.Var(fmt.Sprintf("in_%s_%d_B", name, k), smt.BoolSort)
		in.input(v)
		return Bool{T: v}
	})
	reg("Bytes", func(in *Interp, fr *frame, a []Value) Value {
		return in.inputBytes(strArg(a[0]), int(in.concInt(a[1], "vx.Bytes length")))
	})
	reg("BytesUpTo", func(in *Interp, fr *frame, a []Value) Value {
		max := int(in.concInt(a[1], "vx.BytesUpTo max"))
		n := in.decideN(max+1, "len:"+strArg(a[0]))
		in.res.tag(fmt.Sprintf("len(%s)=%d", strArg(a[0]), n))
		return in.inputBytes(strArg(a[0]), n)
	})
	reg("Choice", func(in *Interp, fr *frame, a []Value) Value {
		n := int(in.concInt(a[1], "vx.Choice n"))
		k := in.decideN(n, "choice:"+strArg(a[0]))
		in.res.tag(fmt.Sprintf("%s=%d", strArg(a[0]), k))
		return mkBV(64, uint64(k))
	})
	reg("String", func(in *Interp, fr *frame, a []Value) Value {
		name := strArg(a[0])
		max := int(in.concInt(a[1], "vx.String maxLen"))
		k := in.names["in:"+name]
		in.names["in:"+name] = k + 1
		v := in.tb.Var(fmt.Sprintf("in_%s_%d_S", name, k), smt.StrSort)
		in.input(v)
		in.assume(in.tb.IntCmp("<=", in.tb.StrLen(v), in.tb.IntLit(int64(max))))
		return Str{Segs: []Seg{{T: v}}}
	})
	reg("HasPrefix", func(in *Interp, fr *frame, a []Value) Value {
		s, p := a[0].(Str), a[1].(Str)
		if s.IsConc() && p.IsConc() {
			return Bool{C: strings.HasPrefix(s.S, p.S)}
		}
		return in.mkBoolT(in.tb.StrPrefixOf(in.strTerm(p), in.strTerm(s)))
	})
	reg("StrLen", func(in *Interp, fr *frame, a []Value) Value {
		// symbolic length as a bounded int (only for assumptions): returns concrete when possible
		s := a[0].(Str)
		if s.IsConc() {
			return mkBV(64, uint64(len(s.S)))
		}
		l := in.fresh("strlen", smt.BVSort(64))
		in.assume(in.tb.Eq(in.tb.BV2Nat(l), in.tb.StrLen(in.strTerm(s))))
		return BV{W: 64, T: l}
	})
	reg("Assume", func(in *Interp, fr *frame, a []Value) Value {
		c := a[0].(Bool)
		if c.T == nil {
			if !c.C {
				panic(pathAbort{"vx.Assume(false)"})
			}
			return nil
		}
		in.assume(c.T)
		if in.live {
			// keep infeasible paths from running on
			if in.sol.Check() == smt.Unsat {
				in.res.Queries++
				panic(pathAbort{"assumptions unsatisfiable"})
			}
			in.res.Queries++
		}
		return nil
	})
	reg("Assert", func(in *Interp, fr *frame, a []Value) Value {
		in.vxAssert(fr, strArg(a[0]), a[1].(Bool))
		return nil
	})
	reg("Reach", func(in *Interp, fr *frame, a []Value) Value {
		in.res.Reach[strArg(a[0])] = true
		return nil
	})
	reg("Tag", func(in *Interp, fr *frame, a []Value) Value {
		val := a[1].(Str)
		txt := val.S
		if !val.IsConc() {
			txt = val.String() // symbolic parts rendered as placeholders
		}
		in.m.tags = append(in.m.tags, strArg(a[0])+"="+txt)
		return nil
	})
	reg("KnownClass", func(in *Interp, fr *frame, a []Value) Value {
		label, id := strArg(a[0]), strArg(a[1])
		in.m.classes[label] = append(in.m.classes[label], knownClass{id: id, cond: in.boolTerm(a[2].(Bool))})
		return nil
	})
	reg("Yield", func(in *Interp, fr *frame, a []Value) Value { in.schedPoint("yield"); return nil })
	reg("Drain", func(in *Interp, fr *frame, a []Value) Value { in.drain(); return nil })
	reg("NoPreempt", func(in *Interp, fr *frame, a []Value) Value {
		if a[0].(Bool).C {
			in.m.noPreempt++
		} else {
			in.m.noPreempt--
		}
		return nil
	})
	reg("PreemptWithin", func(in *Interp, fr *frame, a []Value) Value { in.m.preemptWithin = strArg(a[0]); return nil })
	reg("SchedOnlyAtYield", func(in *Interp, fr *frame, a []Value) Value { in.m.onlyYield = a[0].(Bool).C; return nil })
	reg("Stop", func(in *Interp, fr *frame, a []Value) Value { panic(pathEnd{}) })
	reg("Fault", func(in *Interp, fr *frame, a []Value) Value {
		return Bool{C: in.maybeFault(strArg(a[0]), strArg(a[1]))}
	})
	reg("FaultBudget", func(in *Interp, fr *frame, a []Value) Value {
		in.m.faultBudget[strArg(a[0])] = int(in.concInt(a[1], "fault budget"))
		return nil
	})
	reg("FaultCap", func(in *Interp, fr *frame, a []Value) Value {
		in.m.faultCap = int(in.concInt(a[0], "fault cap"))
		in.m.faultCapSet = in.m.faultCap >= 0
		return nil
	})
	reg("Faulted", func(in *Interp, fr *frame, a []Value) Value {
		return mkBV(64, uint64(in.m.faulted[strArg(a[0])+":"+strArg(a[1])]))
	})
	reg("MapOrderAll", func(in *Interp, fr *frame, a []Value) Value { in.m.mapOrderAll = a[0].(Bool).C; return nil })

	// boolean combinators that do not fork
	reg("And", func(in *Interp, fr *frame, a []Value) Value { return in.andB(a[0].(Bool), a[1].(Bool)) })
	reg("Or", func(in *Interp, fr *frame, a []Value) Value { return in.orB(a[0].(Bool), a[1].(Bool)) })
	reg("Not", func(in *Interp, fr *frame, a []Value) Value { return in.notB(a[0]) })
	reg("Implies", func(in *Interp, fr *frame, a []Value) Value { return in.orB(in.notB(a[0]), a[1].(Bool)) })
	reg("BytesEq", func(in *Interp, fr *frame, a []Value) Value {
		x, y := a[0].(Slice), a[1].(Slice)
		if len(x.A) != len(y.A) {
			return Bool{C: false}
		}
		return in.mkBoolT(in.eqBytes(bvs(x.A), bvs(y.A)))
	})
	reg("AllZero", func(in *Interp, fr *frame, a []Value) Value {
		x := a[0].(Slice)
		z := make([]BV, len(x.A))
		for i := range z {
			z[i] = mkBV(8, 0)
		}
		return in.mkBoolT(in.eqBytes(bvs(x.A), z))
	})
	reg("Ite64", func(in *Interp, fr *frame, a []Value) Value { return in.iteVal(a[0].(Bool), a[1], a[2]) })

	// clock
	reg("Now", func(in *Interp, fr *frame, a []Value) Value {
		in.traceStack = stackOf(fr)
		t := in.clockNow()
		return Tuple{t.Sec, t.Nsec}
	})
	reg("ClockMin", func(in *Interp, fr *frame, a []Value) Value {
		b := a[0].(BV)
		in.m.clockMin = &b
		return nil
	})
	reg("ClockMax", func(in *Interp, fr *frame, a []Value) Value {
		b := a[0].(BV)
		in.m.clockMax = &b
		return nil
	})
	reg("ClockUnbound", func(in *Interp, fr *frame, a []Value) Value {
		in.m.clockMin, in.m.clockMax = nil, nil
		return nil
	})
	reg("ClockFreeze", func(in *Interp, fr *frame, a []Value) Value { in.m.clockFrozen = a[0].(Bool).C; return nil })
	reg("TruncSec", func(in *Interp, fr *frame, a []Value) Value {
		m := in.concInt(a[1], "TruncSec granularity")
		if m <= 1 {
			return a[0]
		}
		t := in.timeTruncate(TimeV{Sec: a[0].(BV), Nsec: mkBV(64, 0)}, mkBV(64, uint64(m*nsPerSec)))
		return t.Sec
	})
	reg("TimeLE", func(in *Interp, fr *frame, a []Value) Value {
		// (s1,n1) <= (s2,n2)
		x := TimeV{Sec: a[0].(BV), Nsec: a[1].(BV)}
		y := TimeV{Sec: a[2].(BV), Nsec: a[3].(BV)}
		return in.notB(in.timeLess(y, x))
	})

	// randomness provenance (C03)
	reg("RandDistinctAxiom", func(in *Interp, fr *frame, a []Value) Value {
		in.m.noDistinctDraws = !a[0].(Bool).C
		return nil
	})
	reg("FreshDraw", func(in *Interp, fr *frame, a []Value) Value {
		if in.m.claimedDraw == nil {
			in.m.claimedDraw = map[*smt.Term]bool{}
		}
		ok := true
		for _, e := range a[0].(Slice).A {
			b, isBV := e.(BV)
			if !isBV || b.T == nil || !strings.HasPrefix(b.T.Name, "rnd_") || in.m.claimedDraw[b.T] {
				ok = false
				continue
			}
			in.m.claimedDraw[b.T] = true
		}
		return Bool{C: ok}
	})
	reg("DrawCount", func(in *Interp, fr *frame, a []Value) Value { return mkBV(64, uint64(len(in.m.rndDraws))) })
	reg("IsDraw", func(in *Interp, fr *frame, a []Value) Value {
		x := a[0].(Slice)
		k := int(in.concInt(a[1], "draw index"))
		if k < 0 || k >= len(in.m.rndDraws) {
			return Bool{C: false}
		}
		return in.mkBoolT(in.eqBytes(bvs(x.A), in.m.rndDraws[k]))
	})
	reg("DrawIndexOf", func(in *Interp, fr *frame, a []Value) Value {
		// index of the random draw whose bytes are syntactically these bytes, or -1
		x := bvs(a[0].(Slice).A)
		for k, d := range in.m.rndDraws {
			if len(d) != len(x) || len(x) == 0 {
				continue
			}
			same := true
			for i := range d {
				if x[i].T == nil || x[i].T != d[i].T {
					same = false
					break
				}
			}
			if same {
				return mkBV(64, uint64(k))
			}
		}
		return mkBV(64, ^uint64(0))
	})
	reg("SameTerms", func(in *Interp, fr *frame, a []Value) Value {
		x, y := bvs(a[0].(Slice).A), bvs(a[1].(Slice).A)
		if len(x) != len(y) {
			return Bool{C: false}
		}
		for i := range x {
			if x[i].T != y[i].T || (x[i].T == nil && x[i].C != y[i].C) {
				return Bool{C: false}
			}
		}
		return Bool{C: true}
	})
	reg("DrawLen", func(in *Interp, fr *frame, a []Value) Value {
		k := int(in.concInt(a[0], "draw index"))
		return mkBV(64, uint64(len(in.m.rndDraws[k])))
	})
	reg("SealCount", func(in *Interp, fr *frame, a []Value) Value { return mkBV(64, uint64(len(in.m.seals))) })
	reg("SealKey", func(in *Interp, fr *frame, a []Value) Value {
		return bvSlice(in.m.seals[in.concInt(a[0], "seal index")].key)
	})
	reg("SealNonce", func(in *Interp, fr *frame, a []Value) Value {
		return bvSlice(in.m.seals[in.concInt(a[0], "seal index")].nonce)
	})
	reg("SealPlain", func(in *Interp, fr *frame, a []Value) Value {
		return bvSlice(in.m.seals[in.concInt(a[0], "seal index")].pt)
	})
	reg("SealOut", func(in *Interp, fr *frame, a []Value) Value {
		e := in.m.seals[in.concInt(a[0], "seal index")]
		return bvSlice(append(append([]BV{}, e.ct...), e.tag...))
	})
	// DependsOn(out, secret): true when some byte of out syntactically mentions a variable of secret
	reg("DependsOn", func(in *Interp, fr *frame, a []Value) Value {
		out, sec := a[0].(Slice), a[1].(Slice)
		secVars := map[*smt.Term]bool{}
		for _, b := range sec.A {
			if t := b.(BV).T; t != nil {
				for _, v := range smt.Vars(t) {
					secVars[v] = true
				}
			}
		}
		for _, b := range out.A {
			if t := b.(BV).T; t != nil {
				for _, v := range smt.Vars(t) {
					if secVars[v] {
						return Bool{C: true}
					}
				}
			}
		}
		return Bool{C: false}
	})
	reg("IsConcrete", func(in *Interp, fr *frame, a []Value) Value {
		for _, b := range a[0].(Slice).A {
			if b.(BV).T != nil {
				return Bool{C: false}
			}
		}
		return Bool{C: true}
	})
	reg("CalledFrom", func(in *Interp, fr *frame, a []Value) Value {
		return mkBV(64, uint64(in.m.edges[strArg(a[1])+">"+strArg(a[0])]))
	})
	reg("Counter", func(in *Interp, fr *frame, a []Value) Value {
		if c, ok := in.m.counters[strArg(a[0])]; ok {
			return *c
		}
		return mkBV(64, 0)
	})
	_ = sort.Strings
	_ = strconv.Itoa
}

func bvSlice(b []BV) Slice {
	out := make([]Value, len(b))
	for i, x := range b {
		out[i] = x
	}
	return Slice{A: out}
}
