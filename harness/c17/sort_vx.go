package kms

// In-package harness (overlaid as /repo/go/appencryption/plugins/aws-v1/kms/zz_vx_c17.go):
// sortClients puts the preferred region first and keeps every other client exactly once, for every input order.

import "verifh/vx"

func VxC17SortClients() {
	all := []string{"r0", "r1", "r2", "r3"}
	n := 1 + vx.Choice("n", 4)
	preferred := all[vx.Choice("preferred", n)]
	rest := append([]string{}, all[:n]...)
	var in []AWSKMSClient
	for len(rest) > 0 {
		i := vx.Choice("order", len(rest))
		in = append(in, AWSKMSClient{Region: rest[i], ARN: "arn:" + rest[i]})
		rest = append(append([]string{}, rest[:i]...), rest[i+1:]...)
	}
	var others []string
	for _, c := range in {
		if c.Region != preferred {
			others = append(others, c.Region)
		}
	}
	out := sortClients(preferred, in)
	vx.Assert("C17.sort_keeps_all_clients", len(out) == n)
	vx.Assert("C17.sort_preferred_first", out[0].Region == preferred)
	// the rest: every other client exactly once (their relative order is not part of the property)
	ok := true
	for _, r := range others {
		n := 0
		for _, c := range out[1:] {
			if c.Region == r {
				n++
			}
		}
		if n != 1 {
			ok = false
		}
	}
	vx.Assert("C17.sort_keeps_every_other_client_once", ok)
	vx.Reach("C17.sort_end")
}
