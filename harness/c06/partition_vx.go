package appencryption

// In-package harness for C06 (overlaid as /repo/go/appencryption/zz_vx_c06.go): the real
// partition id functions over fully symbolic strings, decided by the string theory.

import "verifh/vx"

// VxC06Ids: P != Q  =>  part(P) rejects part(Q)'s intermediate key id, for default/suffixed x default/suffixed.
func VxC06Ids() {
	n := vx.Param("maxlen")
	p := vx.String("P", n)
	q := vx.String("Q", n)
	svc := vx.String("svc", vx.Param("maxsvc"))
	prod := vx.String("prod", vx.Param("maxsvc"))
	vx.Assume(vx.StrLen(p) >= 1)
	vx.Assume(vx.StrLen(q) >= 1)
	vx.Assume(p != q)
	var mine, theirs partition
	kind := vx.Choice("kinds", 4)
	defP := "_IK_" + p + "_" + svc + "_" + prod // documented un-suffixed id of P, built independently of partition.go
	var ownID string
	switch kind {
	case 0:
		mine, theirs = newPartition(p, svc, prod), newPartition(q, svc, prod)
		ownID = defP
		vx.Tag("session", "default")
		vx.Tag("foreign", "default")
	case 1:
		sq := vx.String("sfxQ", 4)
		vx.Assume(vx.StrLen(sq) >= 1)
		mine, theirs = newPartition(p, svc, prod), newSuffixedPartition(q, svc, prod, sq)
		ownID = defP
		vx.Tag("session", "default")
		vx.Tag("foreign", "suffixed")
	case 2:
		sp := vx.String("sfxP", 4)
		vx.Assume(vx.StrLen(sp) >= 1)
		mine, theirs = newSuffixedPartition(p, svc, prod, sp), newPartition(q, svc, prod)
		ownID = defP + "_" + sp
		vx.Tag("session", "suffixed")
		vx.Tag("foreign", "default")
	default:
		sp, sq := vx.String("sfxP", 4), vx.String("sfxQ", 4)
		vx.Assume(vx.StrLen(sp) >= 1)
		vx.Assume(vx.StrLen(sq) >= 1)
		mine, theirs = newSuffixedPartition(p, svc, prod, sp), newSuffixedPartition(q, svc, prod, sq)
		ownID = defP + "_" + sp
		vx.Tag("session", "suffixed")
		vx.Tag("foreign", "suffixed")
	}
	foreign := theirs.IntermediateKeyID()
	accepted := mine.IsValidIntermediateKeyID(foreign)
	switch kind {
	case 1:
		// known finding: with suffixed and un-suffixed sessions sharing a table, the underscore-joined
		// naming scheme lets a different partition's suffixed id coincide with this partition's id
		vx.KnownClass("C06.foreign_id_rejected", "C06-mixed-naming-collision", foreign == ownID)
	case 2, 3:
		// known finding: a suffixed session accepts every id that extends its un-suffixed IK id
		vx.KnownClass("C06.foreign_id_rejected", "C06-suffixed-prefix", vx.Or(vx.HasPrefix(foreign, defP), foreign == ownID))
	}
	vx.Assert("C06.foreign_id_rejected", vx.Not(accepted))
	vx.Assert("C06.own_id_accepted", mine.IsValidIntermediateKeyID(mine.IntermediateKeyID()))
	vx.Reach("C06.ids_end")
}

// VxC06Formats: the id formats are the documented ones (also used by C18).
func VxC06Formats() {
	p := vx.String("P", 6)
	svc := vx.String("svc", 4)
	prod := vx.String("prod", 4)
	sfx := vx.String("sfx", 4)
	d := newPartition(p, svc, prod)
	s := newSuffixedPartition(p, svc, prod, sfx)
	vx.Assert("C18.sk_id", d.SystemKeyID() == "_SK_"+svc+"_"+prod)
	vx.Assert("C18.ik_id", d.IntermediateKeyID() == "_IK_"+p+"_"+svc+"_"+prod)
	vx.Assert("C18.sk_id_suffixed", s.SystemKeyID() == "_SK_"+svc+"_"+prod+"_"+sfx)
	vx.Assert("C18.ik_id_suffixed", s.IntermediateKeyID() == "_IK_"+p+"_"+svc+"_"+prod+"_"+sfx)
	vx.Reach("C18.ids_end")
}
