package server

// In-package harness for C19 (overlaid as /repo/server/go/pkg/server/zz_vx_c19.go): the real
// streamer.Stream / handleRequest / defaultHandler over the real appencryption session stack,
// driven by a fake gRPC stream whose Recv yields a symbolic program of requests.

import (
	"context"
	"errors"
	"io"

	"google.golang.org/grpc"

	"github.com/godaddy/asherah/go/appencryption"
	pb "github.com/godaddy/asherah/server/go/api"

	"verifh/h/env"
	"verifh/vx"
)

type vxStream struct {
	grpc.ServerStream
	t        *testing_
	sends    int
	recvs    int
	last     *pb.SessionResponse
	next     func() (*pb.SessionRequest, error)
	sendFail bool
	check    func(*pb.SessionResponse)
}

type testing_ struct{}

func (s *vxStream) Context() context.Context { return context.Background() }

func (s *vxStream) Send(r *pb.SessionResponse) error {
	s.sends++
	s.last = r
	if s.check != nil {
		s.check(r)
	}
	if vx.Fault("grpc", "Send") {
		s.sendFail = true
		return errors.New("vx: injected Send failure")
	}
	return nil
}

func (s *vxStream) Recv() (*pb.SessionRequest, error) {
	vx.Assert("C19.one_response_per_request", s.sends == s.recvs)
	r, err := s.next()
	if err == nil {
		s.recvs++
	}
	return r, err
}

const (
	rqGetSession = iota
	rqGetSessionEmpty
	rqEncrypt
	rqDecryptGenuine
	rqDecryptForeign
	rqDecryptMalformed
	rqEmpty
	rqEOF
	rqRecvError
	numRq
)

func isErr(r *pb.SessionResponse) bool { return r != nil && r.GetErrorResponse() != nil }

// VxC19Stream runs one stream with a symbolic request program of length <= L.
func VxC19Stream() {
	e := env.New()
	f := e.Factory(e.Policy(env.Policies[0], vx.Choice("cache", vx.Param("caches"))))
	vx.Now()
	vx.ClockFreeze(true)
	// a record of another partition, produced out of band
	so, _ := f.GetSession("other")
	foreign, _ := so.Encrypt(env.Ctx, []byte{9})
	so.Close()

	L := vx.Param("L")
	st := &vxStream{}
	initialised := false // a get-session succeeded
	attempted := false   // a get-session was handled (successfully or not)
	var genuine []*pb.DataRowRecord
	var payloads [][]byte
	var kind int
	var sent []byte
	var want int
	step := 0
	st.next = func() (*pb.SessionRequest, error) {
		if step >= L {
			return nil, io.EOF
		}
		step++
		kind = vx.Choice("rq", numRq)
		switch kind {
		case rqGetSession:
			return &pb.SessionRequest{Request: &pb.SessionRequest_GetSession{GetSession: &pb.GetSession{PartitionId: "p0"}}}, nil
		case rqGetSessionEmpty:
			return &pb.SessionRequest{Request: &pb.SessionRequest_GetSession{GetSession: &pb.GetSession{PartitionId: ""}}}, nil
		case rqEncrypt:
			sent = vx.Bytes("data", 1)
			return &pb.SessionRequest{Request: &pb.SessionRequest_Encrypt{Encrypt: &pb.Encrypt{Data: sent}}}, nil
		case rqDecryptGenuine:
			if len(genuine) == 0 {
				kind = rqEmpty
				return &pb.SessionRequest{}, nil
			}
			want = vx.Choice("which", len(genuine))
			return &pb.SessionRequest{Request: &pb.SessionRequest_Decrypt{Decrypt: &pb.Decrypt{DataRowRecord: genuine[want]}}}, nil
		case rqDecryptForeign:
			return &pb.SessionRequest{Request: &pb.SessionRequest_Decrypt{Decrypt: &pb.Decrypt{DataRowRecord: toProtobufDRR(foreign)}}}, nil
		case rqDecryptMalformed:
			var d *pb.DataRowRecord
			switch vx.Choice("malformed", 5) {
			case 0:
				d = nil
			case 1:
				d = &pb.DataRowRecord{}
			case 2:
				d = &pb.DataRowRecord{Key: &pb.EnvelopeKeyRecord{}}
			case 3:
				d = &pb.DataRowRecord{Data: vx.Bytes("junk", 3), Key: &pb.EnvelopeKeyRecord{Key: vx.Bytes("junkkey", 3), ParentKeyMeta: &pb.KeyMeta{KeyId: env.IKID("p0"), Created: vx.Timestamp("junkcreated")}}}
			case 4:
				return &pb.SessionRequest{Request: &pb.SessionRequest_Decrypt{}}, nil
			}
			return &pb.SessionRequest{Request: &pb.SessionRequest_Decrypt{Decrypt: &pb.Decrypt{DataRowRecord: d}}}, nil
		case rqEmpty:
			return &pb.SessionRequest{}, nil
		case rqEOF:
			return nil, io.EOF
		default:
			return nil, errors.New("vx: transport error")
		}
	}
	st.check = func(r *pb.SessionResponse) {
		switch kind {
		case rqGetSession:
			if attempted {
				vx.Assert("C19.second_get_session_is_error", isErr(r))
			} else {
				vx.Assert("C19.get_session_ok", r != nil && !isErr(r))
				initialised = true
			}
			attempted = true
		case rqGetSessionEmpty:
			vx.Assert("C19.empty_partition_is_error", isErr(r))
			attempted = true
		case rqEncrypt:
			if !initialised {
				vx.Assert("C19.encrypt_before_session_is_error", isErr(r))
			} else {
				ok := r != nil && r.GetEncryptResponse() != nil && r.GetEncryptResponse().GetDataRowRecord() != nil
				vx.Assert("C19.encrypt_returns_record", ok)
				if ok {
					genuine = append(genuine, r.GetEncryptResponse().GetDataRowRecord())
					payloads = append(payloads, append([]byte(nil), sent...))
					vx.Reach("C19.encrypted")
				}
			}
		case rqDecryptGenuine:
			if !initialised {
				vx.Assert("C19.decrypt_before_session_is_error", isErr(r))
			} else {
				ok := r != nil && r.GetDecryptResponse() != nil
				vx.Assert("C19.decrypt_roundtrip", ok && vx.BytesEq(r.GetDecryptResponse().GetData(), payloads[want]))
				vx.Reach("C19.decrypted")
			}
		case rqDecryptForeign, rqDecryptMalformed:
			vx.Assert("C19.foreign_or_corrupt_is_error", isErr(r))
		}
	}
	s := &streamer{sessionFactory: f}
	vx.FaultBudget("grpc", vx.Param("sendfaults"))
	err := s.Stream(st)
	if kind == rqRecvError && !st.sendFail {
		vx.Assert("C19.transport_error_returned", err != nil)
	}
	if !st.sendFail {
		vx.Assert("C19.one_response_per_request", st.sends == st.recvs)
	}
	vx.Reach("C19.stream_end")
}

// VxC18Proto: the protobuf <-> DataRowRecord mapping is field-for-field and mutually inverse.
func VxC18Proto() {
	d := &appencryption.DataRowRecord{
		Data: vx.Bytes("data", 3),
		Key: &appencryption.EnvelopeKeyRecord{
			Created:      vx.Int64("created"),
			EncryptedKey: vx.Bytes("key", 3),
			ParentKeyMeta: &appencryption.KeyMeta{
				ID:      vx.String("pid", 12),
				Created: vx.Int64("pcreated"),
			},
		},
	}
	p := toProtobufDRR(d)
	vx.Assert("C18.pb_data", vx.BytesEq(p.GetData(), d.Data))
	vx.Assert("C18.pb_key", vx.BytesEq(p.GetKey().GetKey(), d.Key.EncryptedKey))
	vx.Assert("C18.pb_created", p.GetKey().GetCreated() == d.Key.Created)
	vx.Assert("C18.pb_parent_id", p.GetKey().GetParentKeyMeta().GetKeyId() == d.Key.ParentKeyMeta.ID)
	vx.Assert("C18.pb_parent_created", p.GetKey().GetParentKeyMeta().GetCreated() == d.Key.ParentKeyMeta.Created)
	back := fromProtobufDRR(p)
	vx.Assert("C18.pb_inverse", env.SameDRR(back, d))
	vx.Reach("C18.proto_end")
}
