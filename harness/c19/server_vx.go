package server

// In-package harness for C19 (overlaid as /repo/server/go/pkg/server/zz_vx_c19.go): the real
// streamer.Stream / handleRequest / defaultHandler over the real appencryption session stack,
// driven by a fake gRPC stream whose Recv yields a symbolic program of requests.

import (
	"context"
	"errors"
	"io"

	"google.golang.org/grpc"

	"github.com/godaddy/asherah/go/appencryption"
	pb "github.com/godaddy/asherah/server/go/api"

	"verifh/h/env"
	"verifh/vx"
)

type vxStream struct {
	grpc.ServerStream
	t        *testing_
	sends    int
	recvs    int
	last     *pb.SessionResponse
	next     func() (*pb.SessionRequest, error)
	sendFail bool
	check    func(*pb.SessionResponse)
}

type testing_ struct{}

func (s *vxStream) Context() context.Context { return context.Background() }

func (s *vxStream) Send(r *pb.SessionResponse) error {
	s.sends++
	s.last = r
	if s.check != nil {
		s.check(r)
	}
	if vx.Fault("grpc", "Send") {
		s.sendFail = true
		return errors.New("vx: injected Send failure")
	}
	return nil
}

func (s *vxStream) Recv() (*pb.SessionRequest, error) {
	vx.Assert("C19.one_response_per_request", s.sends == s.recvs)
	r, err := s.next()
	if err == nil {
		s.recvs++
	}
	return r, err
}

const (
	rqGetSession = iota
	rqGetSessionEmpty
	rqEncrypt
	rqDecryptGenuine
	rqDecryptForeign
	rqDecryptMalformed
	rqEmpty
	rqEOF
	rqRecvError
	numRq
)

func isErr(r *pb.SessionResponse) bool { return r != nil && r.GetErrorResponse() != nil }

// VxC19Stream runs one stream with a symbolic request program of length <= L.
func VxC19Stream() {
	e := env.New()
	f := e.Factory(e.Policy(env.Policies[0], vx.Choice("cache", vx.Param("caches"))))
	vx.Now()
	vx.ClockFreeze(true)
	// a record of another partition, produced out of band
	so, _ := f.GetSession("other")
	foreign, _ := so.Encrypt(env.Ctx, []byte{9})
	so.Close()

	vxStreamProgram(vxServer(f), foreign, vx.Param("L"))
}

// vxServer: the server object exactly as NewAppEncryption builds it (a streamer per stream), over the harness's
// session factory.
func vxServer(f sessionFactory) *AppEncryption {
	return &AppEncryption{streamerFactory: streamerFactoryFunc(func() *streamer { return &streamer{sessionFactory: f} })}
}

// VxC19TwoStreams: the same server first serves a complete, well-behaved stream of another client (get-session for
// partition "alice", one encrypt, end of stream) and then the symbolic request program on a second stream: nothing
// the first stream did may change what the second one is answered (in particular encrypt/decrypt before a successful
// get-session stay errors).
func VxC19TwoStreams() {
	e := env.New()
	f := e.Factory(e.Policy(env.Policies[0], vx.Choice("cache", vx.Param("caches"))))
	vx.Now()
	vx.ClockFreeze(true)
	so, _ := f.GetSession("other")
	foreign, _ := so.Encrypt(env.Ctx, []byte{9})
	so.Close()
	s := vxServer(f)
	script := []*pb.SessionRequest{
		{Request: &pb.SessionRequest_GetSession{GetSession: &pb.GetSession{PartitionId: "alice"}}},
		{Request: &pb.SessionRequest_Encrypt{Encrypt: &pb.Encrypt{Data: []byte{7}}}},
	}
	if vx.Choice("first_stream_only_opens_its_session", 2) == 1 {
		script = script[:1]
	}
	first := &vxStream{}
	first.next = func() (*pb.SessionRequest, error) {
		if first.recvs >= len(script) {
			return nil, io.EOF
		}
		return script[first.recvs], nil
	}
	first.check = func(r *pb.SessionResponse) { vx.Assert("C19.first_stream_served", r != nil && !isErr(r)) }
	s.Session(first)
	vx.Assert("C19.first_stream_complete", first.sends == len(script))
	vx.Reach("C19.first_stream_done")
	vxStreamProgram(s, foreign, vx.Param("L"))
}

func vxStreamProgram(s *AppEncryption, foreign *appencryption.DataRowRecord, L int) {
	st := &vxStream{}
	initialised := false // a get-session succeeded
	attempted := false   // a get-session was handled (successfully or not)
	var genuine []*pb.DataRowRecord
	var payloads [][]byte
	var kind int
	var sent []byte
	var want int
	step := 0
	st.next = func() (*pb.SessionRequest, error) {
		if step >= L {
			return nil, io.EOF
		}
		step++
		kind = vx.Choice("rq", numRq)
		switch kind {
		case rqGetSession:
			return &pb.SessionRequest{Request: &pb.SessionRequest_GetSession{GetSession: &pb.GetSession{PartitionId: "p0"}}}, nil
		case rqGetSessionEmpty:
			return &pb.SessionRequest{Request: &pb.SessionRequest_GetSession{GetSession: &pb.GetSession{PartitionId: ""}}}, nil
		case rqEncrypt:
			sent = vx.Bytes("data", 1)
			return &pb.SessionRequest{Request: &pb.SessionRequest_Encrypt{Encrypt: &pb.Encrypt{Data: sent}}}, nil
		case rqDecryptGenuine:
			if len(genuine) == 0 {
				kind = rqEmpty
				return &pb.SessionRequest{}, nil
			}
			want = vx.Choice("which", len(genuine))
			return &pb.SessionRequest{Request: &pb.SessionRequest_Decrypt{Decrypt: &pb.Decrypt{DataRowRecord: genuine[want]}}}, nil
		case rqDecryptForeign:
			return &pb.SessionRequest{Request: &pb.SessionRequest_Decrypt{Decrypt: &pb.Decrypt{DataRowRecord: refToPB(foreign)}}}, nil
		case rqDecryptMalformed:
			var d *pb.DataRowRecord
			switch vx.Choice("malformed", 5) {
			case 0:
				d = nil
			case 1:
				d = &pb.DataRowRecord{}
			case 2:
				d = &pb.DataRowRecord{Key: &pb.EnvelopeKeyRecord{}}
			case 3:
				d = &pb.DataRowRecord{Data: vx.Bytes("junk", 3), Key: &pb.EnvelopeKeyRecord{Key: vx.Bytes("junkkey", 3), ParentKeyMeta: &pb.KeyMeta{KeyId: env.IKID("p0"), Created: vx.Timestamp("junkcreated")}}}
			case 4:
				return &pb.SessionRequest{Request: &pb.SessionRequest_Decrypt{}}, nil
			}
			return &pb.SessionRequest{Request: &pb.SessionRequest_Decrypt{Decrypt: &pb.Decrypt{DataRowRecord: d}}}, nil
		case rqEmpty:
			return &pb.SessionRequest{}, nil
		case rqEOF:
			return nil, io.EOF
		default:
			return nil, errors.New("vx: transport error")
		}
	}
	st.check = func(r *pb.SessionResponse) {
		switch kind {
		case rqGetSession:
			if attempted {
				vx.Assert("C19.second_get_session_is_error", isErr(r))
			} else {
				vx.Assert("C19.get_session_ok", r != nil && !isErr(r))
				initialised = true
			}
			attempted = true
		case rqGetSessionEmpty:
			vx.Assert("C19.empty_partition_is_error", isErr(r))
			attempted = true
		case rqEncrypt:
			if !initialised {
				vx.Assert("C19.encrypt_before_session_is_error", isErr(r))
			} else {
				ok := r != nil && r.GetEncryptResponse() != nil && r.GetEncryptResponse().GetDataRowRecord() != nil
				vx.Assert("C19.encrypt_returns_record", ok)
				if ok {
					genuine = append(genuine, r.GetEncryptResponse().GetDataRowRecord())
					payloads = append(payloads, append([]byte(nil), sent...))
					vx.Reach("C19.encrypted")
				}
			}
		case rqDecryptGenuine:
			if !initialised {
				vx.Assert("C19.decrypt_before_session_is_error", isErr(r))
			} else {
				ok := r != nil && r.GetDecryptResponse() != nil
				vx.Assert("C19.decrypt_roundtrip", ok && vx.BytesEq(r.GetDecryptResponse().GetData(), payloads[want]))
				vx.Reach("C19.decrypted")
			}
		case rqDecryptForeign, rqDecryptMalformed:
			vx.Assert("C19.foreign_or_corrupt_is_error", isErr(r))
		}
	}
	vx.FaultBudget("grpc", vx.Param("sendfaults"))
	err := s.Session(st)
	vx.FaultBudget("grpc", 0)
	if kind == rqRecvError && !st.sendFail {
		vx.Assert("C19.transport_error_returned", err != nil)
	}
	if !st.sendFail {
		vx.Assert("C19.one_response_per_request", st.sends == st.recvs)
	}
	vx.Reach("C19.stream_end")
}

// refToPB / refFromPB: the record <-> message mapping written from api/appencryption.proto and the documented record
// layout (what an independent client of the sidecar does), not from the code under test.
func refToPB(d *appencryption.DataRowRecord) *pb.DataRowRecord {
	return &pb.DataRowRecord{
		Data: d.Data,
		Key: &pb.EnvelopeKeyRecord{
			Created: d.Key.Created,
			Key:     d.Key.EncryptedKey,
			ParentKeyMeta: &pb.KeyMeta{
				KeyId:   d.Key.ParentKeyMeta.ID,
				Created: d.Key.ParentKeyMeta.Created,
			},
		},
	}
}

func refFromPB(p *pb.DataRowRecord) *appencryption.DataRowRecord {
	return &appencryption.DataRowRecord{
		Data: p.GetData(),
		Key: &appencryption.EnvelopeKeyRecord{
			Created:      p.GetKey().GetCreated(),
			EncryptedKey: p.GetKey().GetKey(),
			ParentKeyMeta: &appencryption.KeyMeta{
				ID:      p.GetKey().GetParentKeyMeta().GetKeyId(),
				Created: p.GetKey().GetParentKeyMeta().GetCreated(),
			},
		},
	}
}

// VxC18ProtoStream: the gRPC message mapping, checked through the stream (no unexported helper is named, so a
// refactor of the mapping code keeps the check): records written by the SDK and mapped by a reference client are
// decrypted by the sidecar, records emitted by the sidecar and mapped back by the reference client are decrypted by
// the SDK, across two intermediate-key generations (same key id, different creation stamps) in either order.
func VxC18ProtoStream() {
	e := env.New()
	f := e.Factory(e.Policy(env.Policies[0], env.CacheDefault))
	t0, _ := vx.Now()
	vx.ClockFreeze(true)
	direct, _ := f.GetSession("p0")
	pl1, pl2 := vx.Bytes("pl1", 2), vx.Bytes("pl2", 2)
	d1, err := direct.Encrypt(env.Ctx, append([]byte(nil), pl1...))
	vx.Assert("C18.pbs_setup", err == nil)
	// rotate the intermediate key: revoke it out of band, let more than a precision bucket pass
	e.Store.Latest(env.IKID("p0")).Revoked = true
	vx.ClockFreeze(false)
	vx.ClockMin(t0 + 3700)
	t1, _ := vx.Now()
	vx.ClockFreeze(true)
	d2, err := direct.Encrypt(env.Ctx, append([]byte(nil), pl2...))
	vx.Assert("C18.pbs_setup", err == nil)
	if err != nil || d1.Key.ParentKeyMeta.Created == d2.Key.ParentKeyMeta.Created {
		vx.Assert("C18.pbs_rotated", false)
		vx.Stop()
	}
	recs := []*appencryption.DataRowRecord{d1, d2}
	pls := [][]byte{pl1, pl2}
	first := vx.Choice("first", 2)
	order := []int{first, 1 - first, first}
	data := vx.Bytes("data", 2)
	step := 0
	var emitted *pb.DataRowRecord
	st := &vxStream{}
	st.next = func() (*pb.SessionRequest, error) {
		step++
		switch {
		case step == 1:
			return &pb.SessionRequest{Request: &pb.SessionRequest_GetSession{GetSession: &pb.GetSession{PartitionId: "p0"}}}, nil
		case step <= 4:
			return &pb.SessionRequest{Request: &pb.SessionRequest_Decrypt{Decrypt: &pb.Decrypt{DataRowRecord: refToPB(recs[order[step-2]])}}}, nil
		case step == 5:
			return &pb.SessionRequest{Request: &pb.SessionRequest_Encrypt{Encrypt: &pb.Encrypt{Data: append([]byte(nil), data...)}}}, nil
		}
		return nil, io.EOF
	}
	st.check = func(r *pb.SessionResponse) {
		switch {
		case step == 1:
			vx.Assert("C18.pbs_get_session_ok", r != nil && !isErr(r))
		case step <= 4:
			ok := r != nil && r.GetDecryptResponse() != nil
			vx.Assert("C18.sidecar_reads_reference_mapped_record", ok && vx.BytesEq(r.GetDecryptResponse().GetData(), pls[order[step-2]]))
		case step == 5:
			if r != nil && r.GetEncryptResponse() != nil {
				emitted = r.GetEncryptResponse().GetDataRowRecord()
			}
		}
	}
	s := &streamer{sessionFactory: f}
	s.Stream(st)
	vx.Assert("C18.pbs_one_response_per_request", st.sends == 5)
	if emitted == nil {
		vx.Assert("C18.sidecar_emits_a_record", false)
		vx.Stop()
	}
	// field for field: what the sidecar emitted is what the SDK produced (the data key's stamp is the instant of the
	// call, the parent meta names the current intermediate key of the partition)
	vx.Assert("C18.pb_key_created_is_the_data_key_stamp", emitted.GetKey().GetCreated() == t1)
	vx.Assert("C18.pb_parent_names_current_ik", emitted.GetKey().GetParentKeyMeta().GetKeyId() == env.IKID("p0") &&
		emitted.GetKey().GetParentKeyMeta().GetCreated() == d2.Key.ParentKeyMeta.Created)
	out, err := direct.Decrypt(env.Ctx, *refFromPB(emitted))
	vx.Assert("C18.sdk_reads_record_emitted_by_sidecar", vx.And(err == nil, vx.BytesEq(out, data)))
	vx.Reach("C18.proto_end")
}
