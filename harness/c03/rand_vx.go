package internal

// In-package harness (overlaid as /repo/go/appencryption/internal/zz_vx_c03.go): the random source behind every
// data key and nonce. Over a long stream of requests of the sizes the SDK uses (12-byte nonces, 32-byte keys, and
// a few odd sizes), every byte handed out is a byte freshly produced by the system CSPRNG for that request and by
// no earlier one: no zero-filled tails, no bytes served twice, whatever buffering sits in between.

import "verifh/vx"

func VxC03RandomStream() {
	vx.RandDistinctAxiom(false) // provenance is decided syntactically here; no value reasoning is involved
	sizes := []int{12, 32, 12, 32, 32, 12, 1, 12, 32, 7, 12, 32, 64}
	N := vx.Param("N")
	total := 0
	for i := 0; i < N; i++ {
		n := sizes[i%len(sizes)]
		var b []byte
		if i%2 == 0 {
			b = GetRandBytes(n)
		} else {
			b = make([]byte, n)
			FillRandom(b)
		}
		vx.Assert("C03.random_request_length", len(b) == n)
		vx.Assert("C03.every_byte_is_a_fresh_csprng_byte", vx.FreshDraw(b))
		total += n
	}
	vx.Assert("C03.random_stream_exercised", total >= N)
	vx.Reach("C03.random_stream_end")
}
