#!/usr/bin/env python3
"""Keeps one machine-written line in every spec's "bounds": the parameters of each harness per tier, taken from the
spec itself (so the numbers quoted in the evidence cannot drift from what runs)."""
import json, glob
MARK = "parameters as run (harness: quick | thorough): "
for f in sorted(glob.glob('/verif/harness/specs/C*.json')):
    sp = json.load(open(f))
    parts = []
    for h in sp['harnesses']:
        q = h.get('quick', {}) or {}
        t = h.get('thorough', {}) or {}
        def fmt(ts, base=None):
            if ts.get('skip'):
                return "not run in this tier"
            p = dict((base or {}).get('params') or {})
            p.update(ts.get('params') or {})
            s = ",".join(f"{k}={v}" for k, v in sorted(p.items()) if not (k == 'only_state' and v == 0))
            pb = ts.get('preempt_bound', (base or {}).get('preempt_bound'))
            if pb:
                s += f",preempt_bound={pb}"
            return s or "-"
        parts.append(f"{h['name']}: {fmt(q)} | {fmt(t, q)}")
    sp['bounds'] = [b for b in sp.get('bounds', []) if not b.startswith(MARK)] + [MARK + "; ".join(parts)]
    json.dump(sp, open(f, 'w'), indent=1)
print("bounds lines refreshed")
