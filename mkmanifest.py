#!/usr/bin/env python3
"""Regenerates MANIFEST.json from manifest_src.json (claimed checks + not-applicable reasons)."""
import json, sys
src = json.load(open('/verif/manifest_src.json'))
props = [json.loads(l)['id'] for l in open('/verif/properties.jsonl')]
checks = []
na = []
for pid in props:
    c = src['claimed'].get(pid)
    if c:
        # the numeric bounds in the note come from the spec that actually runs (see mkbounds.py)
        sp = json.load(open(f'/verif/harness/specs/{pid}.json'))
        auto = [b for b in sp.get('bounds', []) if b.startswith('parameters as run')]
        if 'note_base' in c and auto:
            c['note'] = c['note_base'] + " Bounds - " + auto[0] + " (the qualitative bounds and everything outside them are listed in the evidence file)."
        checks.append({
            "property_id": pid,
            "quick_cmd": f"./check {pid} --tier quick",
            "thorough_cmd": f"./check {pid} --tier thorough",
            "evidence_file": f"/verif/evidence/{pid}.json",
            "replay_cmd_template": f"./check {pid} --replay {{path}}",
            "engine": "gosx",
            "level_claimed": {"category": "model_checking", "text": c['text'], "design_ref": c.get('design_ref', 'DESIGN.md §8 ' + pid)},
            "level_note": c['note'],
            "technique": c.get('technique', "bounded symbolic execution of the real Go SSA (gosx) + SMT (z3; cvc5/z3-5.1 cross-check): every branch feasibility, cover obligation and assertion is a solver verdict over all inputs within the stated bounds"),
        })
    else:
        na.append({"property_id": pid, "reason": src['not_applicable'].get(pid, "check not built yet in this round (work in progress; see DESIGN.md §12)")})
m = {
    "version": 1,
    "setup_cmd": "cd /verif/engine && GOFLAGS=-mod=mod GOPROXY=off GOSUMDB=off GOTOOLCHAIN=local GOWORK=off go build -o /verif/bin/gosx ./cmd/gosx && /verif/selftest",
    "hooks": {
        "guard": "verif",
        "enable": "no source hooks: harnesses and the virtual clock are injected with go/packages overlays (packages.Config.Overlay / go test -overlay); nothing in /repo is guarded by the tag",
        "baseline_off_cmd": "for m in $(cat /w/out/gomods.txt); do MF=$(cd /repo/$m && . /w/out/goenv.sh && gomodflag); (cd /repo/$m && go test $MF -json -vet=off -count=1 -timeout 25m ./...); done",
        "source_commits": src.get('hook_commits', []),
        "add_only": True,
    },
    "engines": [{"name": "gosx", "path": "/verif/engine", "serves_properties": [c['property_id'] for c in checks],
                 "kind_free_text": "symbolic executor for Go SSA (go/packages + go/ssa v0.29.0) written for this task; SMT-LIB2 over one z3 -in pipe per worker; environment models per DESIGN.md §3"}],
    "checks": checks,
    "not_applicable": na,
    "notes": src.get('notes', ''),
}
json.dump(m, open('/verif/MANIFEST.json', 'w'), indent=1)
print(len(checks), 'claimed;', len(na), 'not applicable')
